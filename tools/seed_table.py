#!/usr/bin/env python3
"""Prints the markdown table of DESIGN.md section 13 from /verif/seeded/*/meta.json."""
import glob, json, os, re

HERE = os.path.dirname(os.path.dirname(os.path.abspath(__file__)))

def short(s, n):
    s = re.sub(r"\s+", " ", s or "").strip()
    return s if len(s) <= n else s[: n - 1].rsplit(" ", 1)[0] + " …"

rows = []
for d in sorted(glob.glob(os.path.join(HERE, "seeded", "*"))):
    p = os.path.join(d, "meta.json")
    if not os.path.exists(p):
        continue
    m = json.load(open(p))
    name = os.path.basename(d)
    files = []
    try:
        for l in open(os.path.join(d, "patch.diff")):
            if l.startswith("+++ b/"):
                files.append(l[6:].strip().replace("src/", ""))
    except FileNotFoundError:
        pass
    v = m.get("verified_by_harness_author", {})
    ok = v.get("existing_tests_pass_with_change") and v.get("demo_passes_without_change") and (
        v.get("demo_fails_with_change") or m.get("demo_confirmed_manually"))
    det = m.get("detected_by_quick_checks", [])
    later = m.get("detected_after_strengthening", [])
    own = m.get("property", name[:3])
    caught_own = own in det or own in later
    rows.append((name, own, ", ".join(files), short(m.get("summary", ""), 170), short(m.get("needs", ""), 150),
                 "yes" if ok else "NO", " ".join(det) or "-", " ".join(later) or "", "yes" if caught_own else "NO"))

print("| seeded change | breaks | file(s) | what it does | needs, to manifest | confirmed (55 tests pass, demo fails with / passes without) | quick checks reporting a violation | after strengthening | own check catches it |")
print("|---|---|---|---|---|---|---|---|---|")
for r in rows:
    print("| " + " | ".join(r) + " |")
