#!/bin/bash
# tools/eval_seed.sh <NAME> <WORKTREE> [checks...]
# 1. confirms a seeded change in its scratch worktree (compiles, 55 tests pass, demo fails with / passes without)
# 2. stores it as /verif/seeded/<NAME>/ (patch.diff, demonstration, meta.json)
# 3. applies it to /repo, runs the given checks (default: all 20, quick tier), records which report a
#    violation, and ALWAYS restores /repo afterwards.
set -u
NAME="$1"; WT="$2"; shift 2
CHECKS="${*:-C01 C02 C03 C04 C05 C06 C07 C08 C09 C10 C11 C12 C13 C14 C15 C16 C17 C18 C19 C20}"
export CARGO_NET_OFFLINE=true
DEST=/verif/seeded/$NAME
mkdir -p "$DEST"
cp "$WT"/_seed/* "$DEST"/ 2>/dev/null
[ -f "$DEST/patch.diff" ] || { echo "no patch.diff"; exit 2; }

cd "$WT" || exit 2
DEMO_CMD=$(python3 -c "import json;print(json.load(open('$DEST/meta.json')).get('demo_cmd',''))" 2>/dev/null)
echo "== confirm in $WT (demo: $DEMO_CMD)"
# with the change: existing tests (library unit tests only) must pass
cargo test --offline --lib >"$DEST/confirm_tests_with_change.log" 2>&1
TESTS_OK=$(grep -c "test result: ok. 55 passed" "$DEST/confirm_tests_with_change.log")
# demo with change
if [ -f tests/seed_demo.rs ]; then
  cargo test --offline --test seed_demo >"$DEST/confirm_demo_with_change.log" 2>&1; DEMO_WITH=$?
  # (no `git stash`: the stash is shared between worktrees)
  git diff -- src Cargo.toml > "$WT/_mychange.diff"; git checkout -- src Cargo.toml
  cargo test --offline --test seed_demo >"$DEST/confirm_demo_without_change.log" 2>&1; DEMO_WITHOUT=$?
  git apply "$WT/_mychange.diff"
elif [ -f seed_demo.sh ]; then
  cargo build --offline --bins >/dev/null 2>&1
  bash seed_demo.sh >"$DEST/confirm_demo_with_change.log" 2>&1; DEMO_WITH=$?
  git diff -- src Cargo.toml > "$WT/_mychange.diff"; git checkout -- src Cargo.toml
  cargo build --offline --bins >/dev/null 2>&1
  bash seed_demo.sh >"$DEST/confirm_demo_without_change.log" 2>&1; DEMO_WITHOUT=$?
  git apply "$WT/_mychange.diff"
  cargo build --offline --bins >/dev/null 2>&1
else
  DEMO_WITH=-1; DEMO_WITHOUT=-1
fi
echo "tests_ok=$TESTS_OK demo_with_change_exit=$DEMO_WITH demo_without_change_exit=$DEMO_WITHOUT"

echo "== apply to /repo and run checks"
cd /verif
if ! git -C /repo diff --quiet; then echo "/repo is dirty, refusing"; exit 2; fi
if ! git -C /repo apply "$DEST/patch.diff"; then echo "patch does not apply to /repo"; exit 2; fi
DETECTED=""; MISSED=""; BROKEN=""
for c in $CHECKS; do
  RC=$(./check "$c" quick >/tmp/eval_seed_out.txt 2>&1; echo $?)
  LINE=$(grep -E "^\[|VIOLATION|HARNESS-ERROR|INCONCLUSIVE" /tmp/eval_seed_out.txt | head -2 | tr '\n' ' ' | cut -c1-300)
  if [ "$RC" = "1" ]; then DETECTED="$DETECTED $c"; echo "  $c: VIOLATION  $LINE";
  elif [ "$RC" = "0" ]; then MISSED="$MISSED $c";
  else BROKEN="$BROKEN $c"; echo "  $c: exit $RC  $LINE"; fi
done
git -C /repo checkout -- .
git -C /repo status --short | head -3
rm -rf /verif/replays
echo "detected_by:$DETECTED"
echo "not_detected_by:$MISSED"
[ -n "$BROKEN" ] && echo "inconclusive:$BROKEN"
python3 - "$DEST" "$TESTS_OK" "$DEMO_WITH" "$DEMO_WITHOUT" "$DETECTED" "$BROKEN" <<'EOF'
import json,sys
dest,tests_ok,dw,dwo,det,broken=sys.argv[1:7]
p=dest+'/meta.json'
try: m=json.load(open(p))
except Exception: m={}
m['verified_by_harness_author']={
 'existing_tests_pass_with_change': tests_ok=='1',
 'demo_fails_with_change': dw not in ('0','-1'),
 'demo_passes_without_change': dwo=='0',
 'how': 'tools/eval_seed.sh: cargo test --lib (55 tests) and the demonstration with / without the change in the scratch worktree; then git -C /repo apply, ./check <ID> quick for the listed checks, git -C /repo checkout -- .',
}
m['detected_by_quick_checks']=det.split()
m['inconclusive_checks']=broken.split()
json.dump(m,open(p,'w'),indent=1)
EOF
