#!/usr/bin/env python3
"""Regenerates /verif/MANIFEST.json from the table below (run after adding a check)."""
import json, os

HERE = os.path.dirname(os.path.dirname(os.path.abspath(__file__)))

# id -> (technique, level text, level note, design ref)
CHECKS = {
    "C01": (
        "property-based testing (proptest) against two reference evaluators: explicit-state (small networks) and an independent symbolic one (mid-size generated networks, bundled benchmark models), the second calibrated against the first on every run",
        "No counterexample among the generated (network, formula) cases of the stated bounded shape: every state x sampled valid colour of the tool's result equals the explicit-state HCTL semantics, through 8 entry points; on 7-62-variable generated networks and 20 / 30 bundled models the whole result set equals the reference symbolic evaluator's. Exploration, not proof; the right level because the property quantifies over all networks and formulae and an executable independent semantics exists for small instances.",
        "Trusts lib-param-bn aeon parsing / FnUpdate / function-table numbering and lib-bdd eval_in; colour validity is read from the graph; explicit oracle bounded to <=6 variables, <=12 parameter bits, states^depth <= 4096; the symbolic reference trusts lib-bdd operations and the construction of update-function BDDs; scale cases whose reference evaluation exceeds its budget are skipped and counted.",
        "DESIGN.md sections 6 (C01) and 11a",
    ),
    "C02": (
        "property-based testing (proptest) against an explicit-state reference evaluator (small networks) and a calibrated reference symbolic evaluator (mid-size networks, bundled models) + README equivalences as metamorphic relations",
        "No counterexample among generated (network, extended formula, context sets) cases: results of the 4 extended entry points equal the explicit-state semantics of wild-cards and restricted domains point-wise, and both sides of the three README equivalences evaluate to identical sets for generated bodies. Exploration over bounded instances.",
        "Trusted base of C01; context sets generated inside the unit set over state and parameter variables only (documented precondition).",
        "DESIGN.md section 6, C02",
    ),
    "C03": (
        "property-based testing (proptest): invariants on every returned set, explicit model used to select observable cases; deterministic generated stage with unknown functions of arity 5-8 (exact inclusion in the unit set, equality with the reference symbolic evaluator)",
        "No counterexample among generated strict-unit networks x closed plain/extended formulae: every set returned by the 12 entry points contains no (state, invalid colour) pair, is a subset of the unit set, reports counts not above the graph's, and (raw results) has a BDD support free of extra variables. Exploration.",
        "Trusted base of C01 plus lib-bdd subset / cardinality / support operations.",
        "DESIGN.md section 6, C03",
    ),
    "C13": (
        "property-based testing (proptest) against an explicit-state reference evaluator (small networks) and a calibrated reference symbolic evaluator (mid-size networks padded beyond 2^53 states, bundled models) + defining equivalences as metamorphic relations",
        "No counterexample among generated formulae containing EW/AW: point-wise agreement with greatest-fixed-point semantics, and agreement of the tool with itself on E[phi W psi] = E[phi U psi] | EG phi, A[phi W psi] = ~E[~psi U (~phi & ~psi)], psi => phi W psi. Exploration.",
        "Trusted base of C01.",
        "DESIGN.md section 6, C13",
    ),
    "C05": (
        "bounded-exhaustive enumeration + property-based testing (proptest) + coverage-guided fuzzing (libFuzzer, thorough tier), all differential against a reference lexer/parser; conservation invariant",
        "Stage A is complete for its finite sub-domain (all sequences of <=5 (quick) / <=6 (thorough) tokens over a 16-token alphabet): both parsers accept exactly what the documented grammar derives and build the dictated tree. Stage B explores random longer strings (rendered formulae with character-level mutations, token soup, lexical corner strings). Exploration; exhaustive only for stage A.",
        "The reference grammar is derived from README, the parser module documentation and the property text; name characters / blanks are char::is_alphanumeric|'_' / char::is_whitespace.",
        "DESIGN.md section 6, C05",
    ),
    "C06": (
        "bounded-exhaustive enumeration + property-based testing (proptest) + coverage-guided fuzzing (libFuzzer, thorough tier): round trip and independent renderer",
        "Complete for all trees of <=4 nodes over a small vocabulary (constructors); random exploration of larger / deeper trees from the parsers, preprocessing and the public constructors: print->parse is the identity, every node's stored text equals an independent canonical renderer, stored height = 1 + max child.",
        "Identifiers are valid per the reference lexer (one word, not a constant spelling / non-empty name word).",
        "DESIGN.md section 6, C06",
    ),
    "C07": (
        "bounded-exhaustive enumeration + property-based testing (proptest): differential against an independent scope checker and structural alpha-equivalence",
        "Complete for all binder/variable/jump skeletons of <=6 nodes; random exploration of larger formulae with injected invalidities: accept/reject agrees with the scope checker, accepted output is alpha-equivalent, named by nesting depth, name count = max depth, idempotent.",
        "Propositions validated against a placeholder network holding the generator's name pool.",
        "DESIGN.md section 6, C07",
    ),
    "C09": (
        "property-based testing (proptest): differential against structural alpha-equivalence; independent re-count of duplicates",
        "No counterexample among generated lists of preprocessed formulae with planted alpha-equivalent / near-equivalent sub-formulae: same canonical form <=> alpha-equivalent, renaming map correct and injective on free variables, idempotent, every reported duplicate (key, n) occurs >= n+1 times with identical free-variable domains. Exploration.",
        "Needs the verif_hooks feature (re-export of crate-private canonisation functions). Inputs restricted to sub-formulae of preprocessed formulae (documented precondition).",
        "DESIGN.md section 6, C09",
    ),
    "C04": (
        "model-based property testing over histories (proptest): batch evaluation vs a stateless reference (formula alone; eval_node with sharing disabled; explicit-state evaluator)",
        "No counterexample among generated batches of overlapping formulae: every position of the batch result equals the single-formula result, the sharing-disabled result and the explicit semantics; reordering/repetition permutes results; runs with/without observer and repeated runs agree. Exploration over bounded histories (<=6 formulae).",
        "Trusted base of C01/C02; sharing disabled via public EvalContext fields; hash-order effects only sampled (3 runs per history).",
        "DESIGN.md section 6, C04",
    ),
    "C14": (
        "property-based testing (proptest) + coverage-guided fuzzing (libFuzzer, thorough tier): crash oracle + independent error predicate over the reference parse",
        "No counterexample among generated (network, strings, context subset, k) inputs: none of 9 string entry points panics, and Ok/Err matches the independent predicate (syntax by the reference parser; free / re-quantified variable, unknown proposition, missing label, k < depth). Exploration; 'never panics' is searched, not shown.",
        "Context sets valid for the graph; nesting bounded by the generator; reference parser and scope checker of the harness are the specification.",
        "DESIGN.md section 6, C14",
    ),
    "C08": (
        "metamorphic property-based testing (proptest): meaning-preserving rewrites of the formula text",
        "No counterexample among generated formulae and rewrites (injective renaming incl. permuted internal names, whitespace noise, redundant parentheses, long spellings, constant spellings, combined): raw and sanitised results are BDD-equal. Exploration.",
        "Rewrites are self-checked against the reference parser; whitespace only between tokens / header parts.",
        "DESIGN.md section 6, C08",
    ),
    "C10": (
        "metamorphic property-based testing (proptest): substitution of closed sub-formulae by wild-cards bound to their raw results",
        "No counterexample among generated formulae with 1-3 (one case in seven: 4-12) simultaneous replacements (all occurrences of a chosen sub-formula share one wild-card; the wild-card labels follow one of four naming schemes: w_<i>, numbers, constant spellings, operator-/variable-like names): raw and sanitised results unchanged; plain formulae through extended entry points with an empty context equal the plain entry points. Thorough tier adds bundled benchmark models. Exploration.",
        "Only closed sub-formulae are replaced; raw sets come from the dirty entry point on the same graph object.",
        "DESIGN.md section 6, C10",
    ),
    "C12": (
        "differential property-based testing (proptest): dedicated pattern evaluation vs generic evaluation of a pattern-defeating rewrite; explicit-state reference (small networks), calibrated reference symbolic evaluator without shortcuts (mid-size networks, three bundled models)",
        "No counterexample among generated formulae with the two patterns / near-misses planted at the root, under operators, inside (restricted) quantifier scopes, in batches, on constrained networks: shortcut result == generic result == explicit semantics. Exploration.",
        "`{x} & {x}` for `{x}` is logically identical and not recognised by the pattern matcher (by reading it).",
        "DESIGN.md section 6, C12",
    ),
    "C15": (
        "property-based testing (proptest): differential across k, raw vs sanitised point-wise; deterministic generated stage with large results (10^4-10^6 BDD nodes) compared as whole sets",
        "No counterexample (graphs from get_extended_symbolic_graph and graphs restricted by the caller to a subset of valid colours): sanitised results live in the canonical context (names/order of SymbolicAsyncGraph::new), interoperate with that graph, equal the raw results point-wise and are BDD-equal for k = depth, depth+1, depth+3. Exploration.",
        "Trusted base of C01.",
        "DESIGN.md section 6, C15",
    ),
    "C18": (
        "differential property-based testing (proptest): unsafe_ex variant vs standard evaluation; explicit model decides steady-state freedom; mid-size networks and bundled models: both variants vs a calibrated reference symbolic evaluator",
        "No counterexample on (a) the loop-insensitive fragment on arbitrary networks and (b) arbitrary plain formulae on steady-state-free networks: model_check_formula_unsafe_ex == model_check_formula_dirty == explicit semantics. Exploration.",
        "Trusted base of C01.",
        "DESIGN.md section 6, C18",
    ),
    "C20": (
        "differential property-based testing (proptest): colour slice of the parametrised result vs result on the network instantiated by pick_witness; generated stage on networks padded to 2^45-2^85 state-colour pairs with point-like context sets",
        "No counterexample among generated (network, valid colour, plain or extended formula with context sets restricted to the colour): the states the result associates with a colour equal the result on the instantiated network. Thorough tier adds bundled benchmark models. Exploration.",
        "lib-param-bn's pick_witness is trusted to instantiate the colour (independent of the harness's FnUpdate interpreter).",
        "DESIGN.md section 6, C20",
    ),
    "C11": (
        "property-based testing (proptest) of algebraic fixed-point laws on the tool's own results + differential against lib-param-bn reachability primitives",
        "No counterexample among generated argument sets (sub-space unions, single points, complements of points) on random small networks, on the same networks padded with 12-58 frozen variables (state spaces up to 2^62) and on 8 bundled benchmark models (up to 35 variables / 2^51 colours): unfolding equations, dualities, monotonicity, EF == reach_backward, AG == trap_forward, EU == constrained backward reachability, EX == pre + steady states, extremality of EG/AF/AU by reference iterations. On 4 large models only the laws of EX, AX, EF, AG, EU, AW are checked (the classical EG/AF/AU iterations take minutes there). Exploration.",
        "pre, can_post, reach_backward, trap_forward, restrict, Reachability::reach_bwd of lib-param-bn are trusted; models needing more than a minute per operator are excluded.",
        "DESIGN.md section 6, C11",
    ),
    "C16": (
        "round-trip property-based testing (proptest) through temporary files",
        "No counterexample among generated (network in aeon/bnet/sbml, label->set map, formula list; target path fresh or holding an older archive; sets up to a 3 MiB BDD dump): archive entries are exactly one per result + model + formula list; reload with a graph rebuilt from the archived model and the same k gives the same labels and BDD-equal sets; reloaded sets act like in-memory sets as wild-card context; analyse_formulae's archive entry i is the library result of line i. Exploration.",
        "Temporary files under the system temp directory; zip crate 0.6 used to inspect archives.",
        "DESIGN.md section 6, C16",
    ),
    "C17": (
        "differential property-based testing (proptest) driving the hctl-model-checker binary built from the working tree",
        "No counterexample among generated CLI invocations (model format x formula-file layout x print option x optional context archive x injected input faults): archived sets, printed counts and exhaustive listings equal the library API results (and the explicit semantics for counts), formulae are processed in file order, error inputs produce a message and exit code 0. Exploration.",
        "./check rebuilds the binaries from /repo before the run; counts compared as printed.",
        "DESIGN.md section 6, C17",
    ),
    "C19": (
        "property-based testing (proptest) driving the convert-aeon-to-bnet binary; truth-table families as reference model",
        "No counterexample among generated aeon networks (implicit functions, shared / nested uninterpreted symbols applied to expressions, collision-prone names): per variable, the family of truth tables of the output over all values of the fresh inputs equals the family of the input over all instantiations (constraints dropped); inputs stay inputs; no extra targets. Exploration.",
        "./check rebuilds the binaries from /repo; the per-variable oracle is what the statement fixes (joint families not asserted).",
        "DESIGN.md section 6, C19",
    ),
}

PENDING_REASON = "check not built yet in this session (work in progress; see DESIGN.md section 10)"

def main():
    props = [json.loads(l) for l in open(os.path.join(HERE, "properties.jsonl"))]
    checks = []
    not_applicable = []
    for p in props:
        pid = p["id"]
        if pid in CHECKS:
            tech, text, note, ref = CHECKS[pid]
            checks.append({
                "property_id": pid,
                "quick_cmd": f"./check {pid} quick",
                "thorough_cmd": f"./check {pid} thorough",
                "evidence_file": f"/verif/evidence/{pid}.json",
                "replay_cmd_template": f"./check {pid} quick --replay {{path}}",
                "engine": "hctl-verif",
                "level_claimed": {"category": "exploration", "text": text, "design_ref": ref},
                "level_note": note,
                "technique": tech,
            })
        else:
            not_applicable.append({"property_id": pid, "reason": PENDING_REASON})
    manifest = {
        "version": 1,
        "setup_cmd": "cd /verif/harness && CARGO_NET_OFFLINE=true cargo build --release --offline",
        "hooks": {
            "guard": "cargo feature verif_hooks (crate biodivine-hctl-model-checker)",
            "enable": "the harness crate depends on /repo with features = [\"verif_hooks\"]; ./check rebuilds it from /repo's working tree on every run",
            "baseline_off_cmd": "cd /repo && CARGO_NET_OFFLINE=true cargo test --workspace --no-fail-fast --offline",
            "source_commits": ["943bcfe"],
            "add_only": True,
        },
        "engines": [{
            "name": "hctl-verif",
            "path": "/verif/harness",
            "serves_properties": [c["property_id"] for c in checks],
            "kind_free_text": "Rust crate: proptest driven from a binary on 16 worker threads (fixed seeds from VERIF_SEED), bounded-exhaustive enumeration stages, libFuzzer targets under harness/fuzz (thorough tier of C05, C06, C14; artefacts are re-checked by the same oracle and minimised before being reported); second oracle: reference symbolic evaluator (refsym.rs) for networks beyond the explicit one, calibrated against it on every run; explicit-state HCTL evaluator, reference parser, alpha-equivalence, truth-table families as oracles; regression inputs in /verif/regress are replayed first on every run",
        }],
        "checks": checks,
        "notes": "Exit codes of every check: 0 held, 1 violation (with a VIOLATION line), 2 inconclusive / harness error (never a VIOLATION line). Known findings: /verif/known_findings.json.",
        "not_applicable": not_applicable,
    }
    with open(os.path.join(HERE, "MANIFEST.json"), "w") as f:
        json.dump(manifest, f, indent=1)
        f.write("\n")

if __name__ == "__main__":
    main()
