#!/bin/bash
# tools/reeval_all.sh [names...]: re-run every seeded change against its own check (quick tier) and
# print one line per change; /repo is restored after each.  Run from /verif with a clean /repo.
cd /verif || exit 2
NAMES="${*:-$(ls seeded | grep -v benign)}"
for n in $NAMES; do
  d=seeded/$n
  [ -f $d/patch.diff ] || continue
  own=$(python3 -c "import json;print(json.load(open('$d/meta.json')).get('property','${n:0:3}'))")
  if ! git -C /repo diff --quiet; then echo "/repo dirty"; exit 2; fi
  git -C /repo apply /verif/$d/patch.diff || { echo "$n: patch does not apply"; continue; }
  rm -rf replays
  out=$(./check $own quick 2>&1); rc=$?
  git -C /repo checkout -- .
  cls=$(echo "$out" | grep -E "^\[" | head -1 | cut -c1-90)
  echo "$n own=$own exit=$rc $cls"
done
rm -rf replays
