#!/bin/bash
# tools/eval_benign.sh <NAME> <WORKTREE>: stores a behaviour-preserving change as /verif/seeded/benign/<NAME>/,
# applies it to /repo, runs all 20 quick checks (all must stay silent), restores /repo.
set -u
NAME="$1"; WT="$2"
DEST=/verif/seeded/benign/$NAME
mkdir -p "$DEST"; cp "$WT"/_benign/patch.diff "$WT"/_benign/notes.md "$DEST"/ 2>/dev/null
cd /verif
if ! git -C /repo diff --quiet; then echo "/repo is dirty, refusing"; exit 2; fi
git -C /repo apply "$DEST/patch.diff" || { echo "patch does not apply"; exit 2; }
( cd /repo && CARGO_NET_OFFLINE=true cargo test --offline --lib 2>&1 | grep -E "^test result" ) > "$DEST/tests.log"
ALARMS=""; OTHER=""
for c in C01 C02 C03 C04 C05 C06 C07 C08 C09 C10 C11 C12 C13 C14 C15 C16 C17 C18 C19 C20; do
  RC=$(./check "$c" quick >/tmp/eval_benign_out.txt 2>&1; echo $?)
  if [ "$RC" = "1" ]; then ALARMS="$ALARMS $c"; echo "  $c: ALARM $(grep -E '^\[' /tmp/eval_benign_out.txt | head -1 | cut -c1-300)"; cp /tmp/eval_benign_out.txt "$DEST/alarm_$c.txt";
  elif [ "$RC" != "0" ]; then OTHER="$OTHER $c"; echo "  $c: exit $RC $(tail -2 /tmp/eval_benign_out.txt | cut -c1-200)"; fi
done
git -C /repo checkout -- .
git -C /repo status --short | head -3
echo "tests: $(cat $DEST/tests.log)"
echo "alarms:${ALARMS:- none}   other:${OTHER:- none}"
python3 - "$DEST" "$ALARMS" "$OTHER" <<'PY'
import json,sys
d,a,o=sys.argv[1:4]
json.dump({"kind":"behaviour-preserving change (written by a sub-agent that saw only the property texts)","existing_tests":open(d+'/tests.log').read().strip(),"quick_checks_raising_an_alarm":a.split(),"quick_checks_inconclusive":o.split()},open(d+'/meta.json','w'),indent=1)
PY
