//! libFuzzer target for C05 / C06: the semantic oracle lives inside the target.  Any input string:
//! both parsers vs the reference lexer+parser (accept / reject, tree), conservation, plain rejects
//! extended syntax, extended == plain on plain strings; accepted trees round-trip and are
//! internally consistent.
#![no_main]
use hctl_verif::fuzz_api::fuzz_parse_diff;
use libfuzzer_sys::fuzz_target;

fuzz_target!(|data: &[u8]| {
    fuzz_parse_diff(data);
});
