//! libFuzzer target for C14: bytes are decoded (arbitrary::Unstructured) into (network choice,
//! k, label subset, formula text); the string entry points must return Ok or Err - never panic -
//! and Ok/Err must match the independent predicate.
#![no_main]
use hctl_verif::fuzz_api::fuzz_api_nopanic;
use libfuzzer_sys::fuzz_target;

fuzz_target!(|data: &[u8]| {
    fuzz_api_nopanic(data);
});
