//! libFuzzer target for C06: any string the extended parser accepts yields a tree whose every node
//! stores the canonical text / height of its structure and which survives print -> parse.
#![no_main]
use hctl_verif::fuzz_api::fuzz_roundtrip;
use libfuzzer_sys::fuzz_target;

fuzz_target!(|data: &[u8]| {
    fuzz_roundtrip(data);
});
