//! Bundled benchmark models that evaluate simple formulae in well under a minute, and random
//! symbolic argument sets on graphs of any size (unions of sub-spaces x parameter cubes, clipped to
//! the unit set).

use crate::gen::idx;
use biodivine_hctl_model_checker::mc_utils::get_extended_symbolic_graph;
use biodivine_lib_param_bn::biodivine_std::traits::Set;
use biodivine_lib_param_bn::symbolic_async_graph::{GraphColoredVertices, SymbolicAsyncGraph};
use biodivine_lib_param_bn::BooleanNetwork;
use proptest::prelude::*;
use serde::{Deserialize, Serialize};

/// (path relative to /repo, short name). Models that did not finish `EF AG v` within a minute in the
/// design-phase probe (griffin_model1, tacas1, set2-cav/3, ...) are deliberately not listed.
pub const MODELS: [(&str, &str); 8] = [
    ("test/model-010-13var-2in.aeon", "model-010"),
    ("test/model-022-17var-5in.aeon", "model-022"),
    ("benchmark_models/inference-benchmarks/110_9v/model_parametrized.aeon", "110_9v"),
    ("benchmark_models/inference-benchmarks/CNS_development/model.aeon", "CNS_development"),
    ("benchmark_models/pystablemotifs-models/myeloid.aeon", "myeloid"),
    ("benchmark_models/large-colored-models/set1-tacas/tacas3.aeon", "tacas3"),
    ("benchmark_models/inference-benchmarks/115_35v/model_parametrized.aeon", "115_35v"),
    ("benchmark_models/pystablemotifs-models/cell_cycle_2016.aeon", "cell_cycle_2016"),
];

pub fn repo_dir() -> String {
    std::env::var("VERIF_REPO").unwrap_or_else(|_| "/repo".to_string())
}

pub fn load_model(i: usize) -> Result<(String, BooleanNetwork), String> {
    let (path, name) = MODELS[i % MODELS.len()];
    let full = format!("{}/{}", repo_dir(), path);
    let bn = BooleanNetwork::try_from_file(&full).map_err(|e| format!("{full}: {e}"))?;
    Ok((name.to_string(), bn))
}

pub fn graph_for(bn: &BooleanNetwork, k: u16) -> Result<SymbolicAsyncGraph, String> {
    get_extended_symbolic_graph(bn, k)
}

/// One piece of a set: fixed values of some network variables x fixed values of some parameter bits.
#[derive(Clone, Debug, Serialize, Deserialize, PartialEq, Eq, Hash)]
pub struct BigPiece {
    pub vars: Vec<(u16, bool)>,
    pub params: Vec<(u16, bool)>,
}

#[derive(Clone, Debug, Serialize, Deserialize, PartialEq, Eq, Hash)]
pub struct BigSet {
    pub pieces: Vec<BigPiece>,
    /// 0 (default): union of the pieces; 1: one single (state, colour) point picked inside the first
    /// piece; 2: the unit set minus such a point; 3: the unit set minus the union of the pieces.
    /// Modes 1 and 2 reach what random sub-spaces never do: sets that differ from empty / everything
    /// by a single element (fixed-point iterations that move by one element per step).
    #[serde(default)]
    pub mode: u8,
}

impl BigSet {
    pub fn is_point_like(&self) -> bool {
        self.mode == 1 || self.mode == 2
    }
}

pub fn big_set() -> BoxedStrategy<BigSet> {
    let piece = (
        prop::collection::vec((any::<u16>(), any::<bool>()), 0..=4),
        prop::collection::vec((any::<u16>(), any::<bool>()), 0..=3),
    )
        .prop_map(|(vars, params)| BigPiece { vars, params });
    (
        prop::collection::vec(piece, 0..=3),
        prop_oneof![6 => Just(0u8), 1 => Just(1u8), 2 => Just(2u8), 1 => Just(3u8)],
    )
        .prop_map(|(pieces, mode)| BigSet { pieces, mode })
        .boxed()
}

/// Build the symbolic set (over state and parameter variables only), clipped to the unit set.
pub fn build_big_set(graph: &SymbolicAsyncGraph, set: &BigSet) -> GraphColoredVertices {
    let unit = graph.unit_colored_vertices();
    match set.mode {
        1 | 2 => {
            let first = BigSet { pieces: set.pieces.iter().take(1).cloned().collect(), mode: 0 };
            let mut region = if first.pieces.is_empty() { unit.clone() } else { build_union(graph, &first) };
            if region.is_empty() {
                region = unit.clone();
            }
            let point = region.pick_singleton();
            if set.mode == 1 { point } else { unit.minus(&point) }
        }
        3 => unit.minus(&build_union(graph, set)),
        _ => build_union(graph, set),
    }
}

fn build_union(graph: &SymbolicAsyncGraph, set: &BigSet) -> GraphColoredVertices {
    let ctx = graph.symbolic_context();
    let vars = ctx.bdd_variable_set();
    let n = ctx.num_state_variables();
    let p = ctx.num_parameter_variables();
    let mut bdd = vars.mk_false();
    for piece in &set.pieces {
        let mut cube = vars.mk_true();
        for (sel, val) in &piece.vars {
            let v = ctx.state_variables()[idx(*sel, n)];
            cube = cube.and(&vars.mk_literal(v, *val));
        }
        if p > 0 {
            for (sel, val) in &piece.params {
                let v = ctx.parameter_variables()[idx(*sel, p)];
                cube = cube.and(&vars.mk_literal(v, *val));
            }
        }
        bdd = bdd.or(&cube);
    }
    GraphColoredVertices::new(bdd, ctx).intersect(graph.unit_colored_vertices())
}


// ---------------------------------------------------------------------------------------------
// formulae that are affordable on benchmark-size models

use crate::ast::*;
use crate::gen::{FCfg, FEnv, RawF};

/// Map the operators whose evaluation is a classical fixed-point iteration over EX (EG, AF, AU, EW:
/// minutes on the larger models) to saturation-based ones; EX / AX stay.
pub fn cheap_operators(f: &F) -> F {
    match f {
        F::Un(op, a) => {
            let op = match op {
                UnOp::AF => UnOp::EF,
                UnOp::EG => UnOp::AG,
                o => *o,
            };
            F::Un(op, Box::new(cheap_operators(a)))
        }
        F::Bin(op, a, b) => {
            let op = match op {
                BinOp::AU => BinOp::EU,
                BinOp::EW => BinOp::AW,
                o => *o,
            };
            F::Bin(op, Box::new(cheap_operators(a)), Box::new(cheap_operators(b)))
        }
        F::Hyb(op, v, d, a) => F::Hyb(*op, v.clone(), d.clone(), Box::new(cheap_operators(a))),
        other => other.clone(),
    }
}

/// Models on which formulae with a state variable (one extra copy of every network variable) are
/// affordable; on the others only quantifier-free formulae are used (measured: a single bind over
/// EF on 115_35v or tacas3, or a generic `!{x}: AG EF ~~{x}` on the 21-variable cell_cycle_2016, runs
/// for many minutes up to hours).
pub const HYBRID_OK_ON: [usize; 3] = [0, 2, 4];

/// A closed plain formula over the model's variables with at most one state variable
/// (none if `allow_hybrid` is false).
pub fn bundled_formula(raw: &RawF, bn: &BooleanNetwork, allow_hybrid: bool) -> F {
    let props: Vec<String> = bn.variables().map(|v| bn.get_variable_name(v).clone()).collect();
    let env = FEnv {
        props: &props,
        labels: &[],
        cfg: FCfg { max_quant_depth: usize::from(allow_hybrid), patterns: allow_hybrid, long_chains: false, ..FCfg::PLAIN },
        binders: &crate::gen::BINDERS,
    };
    cheap_operators(&crate::gen::resolve_f(raw, &env))
}

/// Deterministic stream of values of a strategy (for the bundled-model stages, which are not run
/// through proptest's runner because one case is expensive and shrinking would take hours).
pub fn sample_stream<S: Strategy>(strategy: &S, seed: u64, count: usize) -> Vec<S::Value> {
    use proptest::strategy::ValueTree;
    use proptest::test_runner::{Config, RngSeed, TestRunner};
    let mut runner = TestRunner::new(Config {
        rng_seed: RngSeed::Fixed(seed),
        failure_persistence: None,
        ..Config::default()
    });
    (0..count)
        .map(|_| strategy.new_tree(&mut runner).expect("value").current())
        .collect()
}
