//! Bundled benchmark models that evaluate simple formulae in well under a minute, and random
//! symbolic argument sets on graphs of any size (unions of sub-spaces x parameter cubes, clipped to
//! the unit set).

use crate::gen::idx;
use biodivine_hctl_model_checker::mc_utils::get_extended_symbolic_graph;
use biodivine_lib_param_bn::biodivine_std::traits::Set;
use biodivine_lib_param_bn::symbolic_async_graph::{GraphColoredVertices, SymbolicAsyncGraph};
use biodivine_lib_param_bn::BooleanNetwork;
use proptest::prelude::*;
use serde::{Deserialize, Serialize};

/// (path relative to /repo, short name). Models that did not finish `EF AG v` within a minute in the
/// design-phase probe (griffin_model1, tacas1, set2-cav/3, ...) are deliberately not listed.
pub const MODELS: [(&str, &str); 8] = [
    ("test/model-010-13var-2in.aeon", "model-010"),
    ("test/model-022-17var-5in.aeon", "model-022"),
    ("benchmark_models/inference-benchmarks/110_9v/model_parametrized.aeon", "110_9v"),
    ("benchmark_models/inference-benchmarks/CNS_development/model.aeon", "CNS_development"),
    ("benchmark_models/pystablemotifs-models/myeloid.aeon", "myeloid"),
    ("benchmark_models/large-colored-models/set1-tacas/tacas3.aeon", "tacas3"),
    ("benchmark_models/inference-benchmarks/115_35v/model_parametrized.aeon", "115_35v"),
    ("benchmark_models/pystablemotifs-models/cell_cycle_2016.aeon", "cell_cycle_2016"),
];

pub fn repo_dir() -> String {
    std::env::var("VERIF_REPO").unwrap_or_else(|_| "/repo".to_string())
}

pub fn load_model(i: usize) -> Result<(String, BooleanNetwork), String> {
    let (path, name) = MODELS[i % MODELS.len()];
    let full = format!("{}/{}", repo_dir(), path);
    let bn = BooleanNetwork::try_from_file(&full).map_err(|e| format!("{full}: {e}"))?;
    Ok((name.to_string(), bn))
}

pub fn graph_for(bn: &BooleanNetwork, k: u16) -> Result<SymbolicAsyncGraph, String> {
    get_extended_symbolic_graph(bn, k)
}

/// One piece of a set: fixed values of some network variables x fixed values of some parameter bits.
#[derive(Clone, Debug, Serialize, Deserialize, PartialEq, Eq, Hash)]
pub struct BigPiece {
    pub vars: Vec<(u16, bool)>,
    pub params: Vec<(u16, bool)>,
}

#[derive(Clone, Debug, Serialize, Deserialize, PartialEq, Eq, Hash)]
pub struct BigSet {
    pub pieces: Vec<BigPiece>,
}

pub fn big_set() -> BoxedStrategy<BigSet> {
    let piece = (
        prop::collection::vec((any::<u16>(), any::<bool>()), 0..=4),
        prop::collection::vec((any::<u16>(), any::<bool>()), 0..=3),
    )
        .prop_map(|(vars, params)| BigPiece { vars, params });
    prop::collection::vec(piece, 0..=3)
        .prop_map(|pieces| BigSet { pieces })
        .boxed()
}

/// Build the symbolic set (over state and parameter variables only), clipped to the unit set.
pub fn build_big_set(graph: &SymbolicAsyncGraph, set: &BigSet) -> GraphColoredVertices {
    let ctx = graph.symbolic_context();
    let vars = ctx.bdd_variable_set();
    let n = ctx.num_state_variables();
    let p = ctx.num_parameter_variables();
    let mut bdd = vars.mk_false();
    for piece in &set.pieces {
        let mut cube = vars.mk_true();
        for (sel, val) in &piece.vars {
            let v = ctx.state_variables()[idx(*sel, n)];
            cube = cube.and(&vars.mk_literal(v, *val));
        }
        if p > 0 {
            for (sel, val) in &piece.params {
                let v = ctx.parameter_variables()[idx(*sel, p)];
                cube = cube.and(&vars.mk_literal(v, *val));
            }
        }
        bdd = bdd.or(&cube);
    }
    GraphColoredVertices::new(bdd, ctx).intersect(graph.unit_colored_vertices())
}
