//! Own formula AST (`F`), independent of the crate's `HctlTreeNode`, plus the bridge between both.
//!
//! The canonical rendering `F::canon()` is written from the property text of C06 ("canonical fully
//! parenthesised rendering, constants as True/False") and from README, not by calling the crate.

use biodivine_hctl_model_checker::preprocessing::hctl_tree::{HctlTreeNode, NodeType};
use biodivine_hctl_model_checker::preprocessing::operator_enums as oe;
use serde::{Deserialize, Serialize};
use std::collections::BTreeSet;

#[derive(Clone, Copy, Debug, PartialEq, Eq, Hash, PartialOrd, Ord, Serialize, Deserialize)]
pub enum UnOp {
    Not,
    EX,
    AX,
    EF,
    AF,
    EG,
    AG,
}
pub const UN_OPS: [UnOp; 7] = [
    UnOp::Not,
    UnOp::EX,
    UnOp::AX,
    UnOp::EF,
    UnOp::AF,
    UnOp::EG,
    UnOp::AG,
];

#[derive(Clone, Copy, Debug, PartialEq, Eq, Hash, PartialOrd, Ord, Serialize, Deserialize)]
pub enum BinOp {
    And,
    Or,
    Xor,
    Imp,
    Iff,
    EU,
    AU,
    EW,
    AW,
}
pub const BIN_OPS: [BinOp; 9] = [
    BinOp::And,
    BinOp::Or,
    BinOp::Xor,
    BinOp::Imp,
    BinOp::Iff,
    BinOp::EU,
    BinOp::AU,
    BinOp::EW,
    BinOp::AW,
];

#[derive(Clone, Copy, Debug, PartialEq, Eq, Hash, PartialOrd, Ord, Serialize, Deserialize)]
pub enum HybOp {
    Bind,
    Jump,
    Exists,
    Forall,
}

#[derive(Clone, Debug, PartialEq, Eq, Hash, Serialize, Deserialize)]
pub enum F {
    Const(bool),
    Prop(String),
    Var(String),
    Wild(String),
    Un(UnOp, Box<F>),
    Bin(BinOp, Box<F>, Box<F>),
    Hyb(HybOp, String, Option<String>, Box<F>),
}

impl UnOp {
    pub fn text(self) -> &'static str {
        match self {
            UnOp::Not => "~",
            UnOp::EX => "EX",
            UnOp::AX => "AX",
            UnOp::EF => "EF",
            UnOp::AF => "AF",
            UnOp::EG => "EG",
            UnOp::AG => "AG",
        }
    }
}
impl BinOp {
    pub fn text(self) -> &'static str {
        match self {
            BinOp::And => "&",
            BinOp::Or => "|",
            BinOp::Xor => "^",
            BinOp::Imp => "=>",
            BinOp::Iff => "<=>",
            BinOp::EU => "EU",
            BinOp::AU => "AU",
            BinOp::EW => "EW",
            BinOp::AW => "AW",
        }
    }
    pub fn is_temporal(self) -> bool {
        matches!(self, BinOp::EU | BinOp::AU | BinOp::EW | BinOp::AW)
    }
    /// Binding strength as documented in README: the lower the stronger.
    pub fn level(self) -> u8 {
        match self {
            BinOp::EU | BinOp::AU | BinOp::EW | BinOp::AW => 2,
            BinOp::And => 3,
            BinOp::Xor => 4,
            BinOp::Or => 5,
            BinOp::Imp => 6,
            BinOp::Iff => 7,
        }
    }
}
impl HybOp {
    pub fn short(self) -> &'static str {
        match self {
            HybOp::Bind => "!",
            HybOp::Jump => "@",
            HybOp::Exists => "3",
            HybOp::Forall => "V",
        }
    }
    pub fn long(self) -> &'static str {
        match self {
            HybOp::Bind => "\\bind",
            HybOp::Jump => "\\jump",
            HybOp::Exists => "\\exists",
            HybOp::Forall => "\\forall",
        }
    }
    pub fn is_quantifier(self) -> bool {
        !matches!(self, HybOp::Jump)
    }
}

impl F {
    pub fn un(op: UnOp, a: F) -> F {
        F::Un(op, Box::new(a))
    }
    pub fn bin(op: BinOp, a: F, b: F) -> F {
        F::Bin(op, Box::new(a), Box::new(b))
    }
    pub fn hyb(op: HybOp, v: &str, d: Option<&str>, a: F) -> F {
        F::Hyb(op, v.to_string(), d.map(|s| s.to_string()), Box::new(a))
    }
    pub fn not(a: F) -> F {
        F::un(UnOp::Not, a)
    }
    pub fn and(a: F, b: F) -> F {
        F::bin(BinOp::And, a, b)
    }
    pub fn var(v: &str) -> F {
        F::Var(v.to_string())
    }
    pub fn prop(v: &str) -> F {
        F::Prop(v.to_string())
    }
    pub fn wild(v: &str) -> F {
        F::Wild(v.to_string())
    }

    /// Canonical fully parenthesised text (what C06 says every node's stored text must be).
    pub fn canon(&self) -> String {
        let mut s = String::new();
        self.canon_into(&mut s);
        s
    }
    fn canon_into(&self, s: &mut String) {
        match self {
            F::Const(true) => s.push_str("True"),
            F::Const(false) => s.push_str("False"),
            F::Prop(p) => s.push_str(p),
            F::Var(v) => {
                s.push('{');
                s.push_str(v);
                s.push('}');
            }
            F::Wild(w) => {
                s.push('%');
                s.push_str(w);
                s.push('%');
            }
            F::Un(op, a) => {
                s.push('(');
                s.push_str(op.text());
                if *op != UnOp::Not {
                    s.push(' ');
                }
                a.canon_into(s);
                s.push(')');
            }
            F::Bin(op, a, b) => {
                s.push('(');
                a.canon_into(s);
                s.push(' ');
                s.push_str(op.text());
                s.push(' ');
                b.canon_into(s);
                s.push(')');
            }
            F::Hyb(op, v, d, a) => {
                s.push('(');
                s.push_str(op.short());
                s.push('{');
                s.push_str(v);
                s.push('}');
                if let Some(d) = d {
                    s.push_str(" in %");
                    s.push_str(d);
                    s.push('%');
                }
                s.push_str(": ");
                a.canon_into(s);
                s.push(')');
            }
        }
    }

    pub fn height(&self) -> u32 {
        match self {
            F::Const(_) | F::Prop(_) | F::Var(_) | F::Wild(_) => 0,
            F::Un(_, a) | F::Hyb(_, _, _, a) => 1 + a.height(),
            F::Bin(_, a, b) => 1 + a.height().max(b.height()),
        }
    }

    pub fn size(&self) -> usize {
        match self {
            F::Const(_) | F::Prop(_) | F::Var(_) | F::Wild(_) => 1,
            F::Un(_, a) | F::Hyb(_, _, _, a) => 1 + a.size(),
            F::Bin(_, a, b) => 1 + a.size() + b.size(),
        }
    }

    /// Maximal nesting depth of quantifiers (bind / exists / forall); jumps do not count.
    pub fn quant_depth(&self) -> usize {
        match self {
            F::Const(_) | F::Prop(_) | F::Var(_) | F::Wild(_) => 0,
            F::Un(_, a) => a.quant_depth(),
            F::Bin(_, a, b) => a.quant_depth().max(b.quant_depth()),
            F::Hyb(op, _, _, a) => a.quant_depth() + usize::from(op.is_quantifier()),
        }
    }

    pub fn children(&self) -> Vec<&F> {
        match self {
            F::Const(_) | F::Prop(_) | F::Var(_) | F::Wild(_) => vec![],
            F::Un(_, a) | F::Hyb(_, _, _, a) => vec![a],
            F::Bin(_, a, b) => vec![a, b],
        }
    }

    /// All sub-formulae in pre-order (including `self`).
    pub fn subformulas(&self) -> Vec<&F> {
        let mut out = vec![];
        fn rec<'a>(f: &'a F, out: &mut Vec<&'a F>) {
            out.push(f);
            for c in f.children() {
                rec(c, out);
            }
        }
        rec(self, &mut out);
        out
    }

    pub fn visit<'a>(&'a self, f: &mut dyn FnMut(&'a F)) {
        f(self);
        for c in self.children() {
            c.visit(f);
        }
    }

    pub fn has(&self, pred: &dyn Fn(&F) -> bool) -> bool {
        if pred(self) {
            return true;
        }
        self.children().iter().any(|c| c.has(pred))
    }

    pub fn count(&self, pred: &dyn Fn(&F) -> bool) -> usize {
        usize::from(pred(self)) + self.children().iter().map(|c| c.count(pred)).sum::<usize>()
    }

    pub fn has_temporal(&self) -> bool {
        self.has(&|f| match f {
            F::Un(op, _) => *op != UnOp::Not,
            F::Bin(op, _, _) => op.is_temporal(),
            _ => false,
        })
    }
    pub fn has_hybrid(&self) -> bool {
        self.has(&|f| matches!(f, F::Hyb(..)))
    }
    pub fn has_wild_or_domain(&self) -> bool {
        self.has(&|f| matches!(f, F::Wild(_) | F::Hyb(_, _, Some(_), _)))
    }
    pub fn has_weak_until(&self) -> bool {
        self.has(&|f| matches!(f, F::Bin(BinOp::EW | BinOp::AW, _, _)))
    }

    /// Free state variables (occurrences in `{x}` and jump targets not bound by an enclosing quantifier).
    pub fn free_vars(&self) -> BTreeSet<String> {
        fn rec(f: &F, bound: &mut Vec<String>, out: &mut BTreeSet<String>) {
            match f {
                F::Var(v) => {
                    if !bound.contains(v) {
                        out.insert(v.clone());
                    }
                }
                F::Const(_) | F::Prop(_) | F::Wild(_) => {}
                F::Un(_, a) => rec(a, bound, out),
                F::Bin(_, a, b) => {
                    rec(a, bound, out);
                    rec(b, bound, out);
                }
                F::Hyb(HybOp::Jump, v, _, a) => {
                    if !bound.contains(v) {
                        out.insert(v.clone());
                    }
                    rec(a, bound, out);
                }
                F::Hyb(_, v, _, a) => {
                    bound.push(v.clone());
                    rec(a, bound, out);
                    bound.pop();
                }
            }
        }
        let mut out = BTreeSet::new();
        rec(self, &mut vec![], &mut out);
        out
    }

    pub fn is_closed(&self) -> bool {
        self.free_vars().is_empty()
    }

    pub fn labels(&self) -> (BTreeSet<String>, BTreeSet<String>) {
        let mut wild = BTreeSet::new();
        let mut dom = BTreeSet::new();
        self.visit(&mut |f| match f {
            F::Wild(w) => {
                wild.insert(w.clone());
            }
            F::Hyb(_, _, Some(d), _) => {
                dom.insert(d.clone());
            }
            _ => {}
        });
        (wild, dom)
    }

    pub fn props(&self) -> BTreeSet<String> {
        let mut out = BTreeSet::new();
        self.visit(&mut |f| {
            if let F::Prop(p) = f {
                out.insert(p.clone());
            }
        });
        out
    }

    /// Operators occurring in the formula, as short text labels (for class histograms).
    pub fn operator_labels(&self) -> BTreeSet<&'static str> {
        let mut out = BTreeSet::new();
        self.visit(&mut |f| match f {
            F::Un(op, _) => {
                out.insert(op.text());
            }
            F::Bin(op, _, _) => {
                out.insert(op.text());
            }
            F::Hyb(op, _, d, _) => {
                out.insert(match (op, d.is_some()) {
                    (HybOp::Bind, false) => "bind",
                    (HybOp::Bind, true) => "bind-in",
                    (HybOp::Jump, _) => "jump",
                    (HybOp::Exists, false) => "exists",
                    (HybOp::Exists, true) => "exists-in",
                    (HybOp::Forall, false) => "forall",
                    (HybOp::Forall, true) => "forall-in",
                });
            }
            F::Wild(_) => {
                out.insert("wild");
            }
            _ => {}
        });
        out
    }
}

// ---------------------------------------------------------------------------------------------
// bridge to the crate's tree type

pub fn un_to_crate(op: UnOp) -> oe::UnaryOp {
    match op {
        UnOp::Not => oe::UnaryOp::Not,
        UnOp::EX => oe::UnaryOp::EX,
        UnOp::AX => oe::UnaryOp::AX,
        UnOp::EF => oe::UnaryOp::EF,
        UnOp::AF => oe::UnaryOp::AF,
        UnOp::EG => oe::UnaryOp::EG,
        UnOp::AG => oe::UnaryOp::AG,
    }
}
pub fn un_from_crate(op: &oe::UnaryOp) -> UnOp {
    match op {
        oe::UnaryOp::Not => UnOp::Not,
        oe::UnaryOp::EX => UnOp::EX,
        oe::UnaryOp::AX => UnOp::AX,
        oe::UnaryOp::EF => UnOp::EF,
        oe::UnaryOp::AF => UnOp::AF,
        oe::UnaryOp::EG => UnOp::EG,
        oe::UnaryOp::AG => UnOp::AG,
    }
}
pub fn bin_to_crate(op: BinOp) -> oe::BinaryOp {
    match op {
        BinOp::And => oe::BinaryOp::And,
        BinOp::Or => oe::BinaryOp::Or,
        BinOp::Xor => oe::BinaryOp::Xor,
        BinOp::Imp => oe::BinaryOp::Imp,
        BinOp::Iff => oe::BinaryOp::Iff,
        BinOp::EU => oe::BinaryOp::EU,
        BinOp::AU => oe::BinaryOp::AU,
        BinOp::EW => oe::BinaryOp::EW,
        BinOp::AW => oe::BinaryOp::AW,
    }
}
pub fn bin_from_crate(op: &oe::BinaryOp) -> BinOp {
    match op {
        oe::BinaryOp::And => BinOp::And,
        oe::BinaryOp::Or => BinOp::Or,
        oe::BinaryOp::Xor => BinOp::Xor,
        oe::BinaryOp::Imp => BinOp::Imp,
        oe::BinaryOp::Iff => BinOp::Iff,
        oe::BinaryOp::EU => BinOp::EU,
        oe::BinaryOp::AU => BinOp::AU,
        oe::BinaryOp::EW => BinOp::EW,
        oe::BinaryOp::AW => BinOp::AW,
    }
}
pub fn hyb_to_crate(op: HybOp) -> oe::HybridOp {
    match op {
        HybOp::Bind => oe::HybridOp::Bind,
        HybOp::Jump => oe::HybridOp::Jump,
        HybOp::Exists => oe::HybridOp::Exists,
        HybOp::Forall => oe::HybridOp::Forall,
    }
}
pub fn hyb_from_crate(op: &oe::HybridOp) -> HybOp {
    match op {
        oe::HybridOp::Bind => HybOp::Bind,
        oe::HybridOp::Jump => HybOp::Jump,
        oe::HybridOp::Exists => HybOp::Exists,
        oe::HybridOp::Forall => HybOp::Forall,
    }
}

/// Structure of a crate tree (the stored `formula_str`/`height` are *not* looked at).
pub fn from_tree(t: &HctlTreeNode) -> F {
    match &t.node_type {
        NodeType::Terminal(a) => match a {
            oe::Atomic::True => F::Const(true),
            oe::Atomic::False => F::Const(false),
            oe::Atomic::Prop(p) => F::Prop(p.clone()),
            oe::Atomic::Var(v) => F::Var(v.clone()),
            oe::Atomic::WildCardProp(w) => F::Wild(w.clone()),
        },
        NodeType::Unary(op, c) => F::Un(un_from_crate(op), Box::new(from_tree(c))),
        NodeType::Binary(op, l, r) => F::Bin(
            bin_from_crate(op),
            Box::new(from_tree(l)),
            Box::new(from_tree(r)),
        ),
        NodeType::Hybrid(op, v, d, c) => F::Hyb(
            hyb_from_crate(op),
            v.clone(),
            d.clone(),
            Box::new(from_tree(c)),
        ),
    }
}

/// Assemble a crate tree through the public `mk_*` constructors.
pub fn to_tree(f: &F) -> HctlTreeNode {
    match f {
        F::Const(b) => HctlTreeNode::mk_constant(*b),
        F::Prop(p) => HctlTreeNode::mk_proposition(p),
        F::Var(v) => HctlTreeNode::mk_variable(v),
        F::Wild(w) => HctlTreeNode::mk_wild_card(w),
        F::Un(op, a) => HctlTreeNode::mk_unary(to_tree(a), un_to_crate(*op)),
        F::Bin(op, a, b) => HctlTreeNode::mk_binary(to_tree(a), to_tree(b), bin_to_crate(*op)),
        F::Hyb(op, v, d, a) => HctlTreeNode::mk_hybrid(to_tree(a), v, d.clone(), hyb_to_crate(*op)),
    }
}

/// Check the C06 consistency invariant on every node of a crate tree: stored text equals the
/// independent canonical rendering of the node's structure, stored height = 1 + max child height.
pub fn tree_consistent(t: &HctlTreeNode) -> Result<(), String> {
    let f = from_tree(t);
    if t.formula_str != f.canon() {
        return Err(format!(
            "stored text `{}` != canonical rendering `{}`",
            t.formula_str,
            f.canon()
        ));
    }
    if t.height != f.height() {
        return Err(format!(
            "stored height {} != structural height {} at `{}`",
            t.height,
            f.height(),
            t.formula_str
        ));
    }
    match &t.node_type {
        NodeType::Terminal(_) => Ok(()),
        NodeType::Unary(_, c) | NodeType::Hybrid(_, _, _, c) => tree_consistent(c),
        NodeType::Binary(_, l, r) => {
            tree_consistent(l)?;
            tree_consistent(r)
        }
    }
}
