//! Coverage-guided fuzzing stage (thorough tier): drives `cargo +nightly fuzz run` (libFuzzer) on
//! one of the targets under harness/fuzz, then re-checks every crash artefact with the same
//! oracle in-process, minimises it (ddmin over characters, keeping the same failure class) and
//! only then reports it.  libFuzzer pins a campaign only approximately; the saved input is the
//! reproducible unit.  If the fuzz build is unavailable the stage is reported as skipped.

use crate::engine::{verif_dir, Failure, Stats};
use serde_json::json;
use std::path::{Path, PathBuf};
use std::process::Command;

pub struct FuzzOutcome {
    pub failure: Option<Failure>,
}

/// ddmin over the characters of `text`: smallest text for which `still_fails` holds.
pub fn ddmin(text: &str, still_fails: &dyn Fn(&str) -> bool) -> String {
    let mut cur: Vec<char> = text.chars().collect();
    let mut n = 2usize;
    while cur.len() >= 2 {
        let chunk = cur.len().div_ceil(n);
        let mut reduced = false;
        let mut start = 0;
        while start < cur.len() {
            let end = (start + chunk).min(cur.len());
            let cand: Vec<char> = cur[..start].iter().chain(cur[end..].iter()).copied().collect();
            let s: String = cand.iter().collect();
            if !cand.is_empty() && still_fails(&s) {
                cur = cand;
                n = n.saturating_sub(1).max(2);
                reduced = true;
                break;
            }
            start = end;
        }
        if !reduced {
            if n >= cur.len() {
                break;
            }
            n = (n * 2).min(cur.len());
        }
    }
    cur.into_iter().collect()
}

fn copy_dir(from: &Path, to: &Path) {
    if let Ok(rd) = std::fs::read_dir(from) {
        for e in rd.flatten() {
            let _ = std::fs::copy(e.path(), to.join(e.file_name()));
        }
    }
}

/// Run one campaign. `recheck` maps an artefact's bytes to a confirmed, minimised failure (or None
/// if the oracle does not fail on it).
pub fn run_fuzz_stage(
    target: &str,
    runs_per_job: u64,
    jobs: u32,
    seed: u64,
    stats: &mut Stats,
    recheck: &dyn Fn(&[u8]) -> Option<Failure>,
) -> Option<Failure> {
    let root = verif_dir();
    let harness = root.join("harness");
    let work = root.join("target").join("fuzz-work");
    let corpus = work.join(format!("{target}-corpus"));
    let artifacts = work.join(format!("{target}-artifacts"));
    let logs = work.join(format!("{target}-logs"));
    for d in [&corpus, &artifacts, &logs] {
        let _ = std::fs::remove_dir_all(d);
        if std::fs::create_dir_all(d).is_err() {
            stats.stages.insert(format!("fuzz:{target}"), json!({"skipped": "cannot create work directory"}));
            return None;
        }
    }
    copy_dir(&root.join("corpus").join(target), &corpus);
    let seeds = std::fs::read_dir(&corpus).map(|r| r.count()).unwrap_or(0);

    let build = Command::new("cargo")
        .args(["+nightly", "fuzz", "build", target])
        .current_dir(&harness)
        .env("CARGO_NET_OFFLINE", "true")
        .output();
    match build {
        Ok(o) if o.status.success() => {}
        Ok(o) => {
            let err = String::from_utf8_lossy(&o.stderr);
            stats.stages.insert(
                format!("fuzz:{target}"),
                json!({"skipped": "fuzz build failed", "detail": err.lines().rev().take(5).collect::<Vec<_>>()}),
            );
            println!("note: libFuzzer stage for {target} skipped (build failed); the other stages decide");
            return None;
        }
        Err(e) => {
            stats.stages.insert(format!("fuzz:{target}"), json!({"skipped": format!("cargo fuzz not runnable: {e}")}));
            println!("note: libFuzzer stage for {target} skipped ({e}); the other stages decide");
            return None;
        }
    }
    // libFuzzer: seed 0 means random - remap
    let fseed = (seed % 0x7fff_fffe) + 1;
    let artifact_prefix = format!("{}/", artifacts.display());
    // run the instrumented binary directly (cargo-fuzz's own `run` needs the crate directory as cwd,
    // and libFuzzer writes the per-job logs to its cwd)
    // (the harness's cargo configuration puts all build output under <root>/target)
    let mut binary = root.join("target/x86_64-unknown-linux-gnu/release").join(target);
    if !binary.exists() {
        binary = harness.join("fuzz/target/x86_64-unknown-linux-gnu/release").join(target);
    }
    if !binary.exists() {
        stats.stages.insert(format!("fuzz:{target}"), json!({"skipped": "fuzz binary not found after the build"}));
        println!("note: libFuzzer stage for {target} skipped (binary not found); the other stages decide");
        return None;
    }
    let out = Command::new(&binary)
        .arg(&corpus)
        .args([
            format!("-seed={fseed}"),
            format!("-runs={runs_per_job}"),
            "-max_len=192".to_string(),
            "-len_control=0".to_string(),
            format!("-artifact_prefix={artifact_prefix}"),
            format!("-jobs={jobs}"),
            format!("-workers={jobs}"),
            "-rss_limit_mb=4096".to_string(),
            "-timeout=60".to_string(),
        ])
        .current_dir(&logs)
        .output();
    let out = match out {
        Ok(o) => o,
        Err(e) => {
            stats.stages.insert(format!("fuzz:{target}"), json!({"skipped": format!("cargo fuzz run failed to start: {e}")}));
            return None;
        }
    };
    // executions: sum of "Done N runs" over the job logs
    let mut execs = 0u64;
    let mut log_files: Vec<PathBuf> = std::fs::read_dir(&logs)
        .map(|r| r.flatten().map(|e| e.path()).collect())
        .unwrap_or_default();
    log_files.sort();
    let mut texts = vec![];
    for f in &log_files {
        if let Ok(t) = std::fs::read_to_string(f) {
            texts.push(t);
        }
    }
    if texts.is_empty() {
        // single-process campaign: the statistics are on stderr
        texts.push(String::from_utf8_lossy(&out.stderr).to_string());
    }
    for t in &texts {
        for line in t.lines() {
            if let Some(rest) = line.strip_prefix("Done ") {
                if let Some(n) = rest.split_whitespace().next().and_then(|x| x.parse::<u64>().ok()) {
                    execs += n;
                }
            }
        }
    }
    let mut crash_files: Vec<PathBuf> = std::fs::read_dir(&artifacts)
        .map(|r| r.flatten().map(|e| e.path()).collect())
        .unwrap_or_default();
    crash_files.sort();
    let corpus_after = std::fs::read_dir(&corpus).map(|r| r.count()).unwrap_or(0);
    let mut confirmed = None;
    let mut unconfirmed = 0;
    for f in &crash_files {
        if let Ok(bytes) = std::fs::read(f) {
            match recheck(&bytes) {
                Some(fl) => {
                    confirmed = Some(fl);
                    break;
                }
                None => unconfirmed += 1,
            }
        }
    }
    stats.stages.insert(
        format!("fuzz:{target}"),
        json!({
            "engine": "libFuzzer via cargo-fuzz",
            "seed": fseed,
            "jobs": jobs,
            "runs_per_job": runs_per_job,
            "executions": execs,
            "seed_corpus_files": seeds,
            "corpus_files_after": corpus_after,
            "artefacts": crash_files.len(),
            "artefacts_not_reproduced_by_the_oracle": unconfirmed,
            "exit_ok": out.status.success(),
        }),
    );
    stats.evaluations += execs;
    if confirmed.is_none() && (unconfirmed > 0 || (!out.status.success() && crash_files.is_empty() && execs == 0)) {
        println!(
            "INCONCLUSIVE: libFuzzer stage for {target}: {} artefact(s) the oracle does not reproduce / campaign did not run; see {}",
            unconfirmed,
            logs.display()
        );
        std::process::exit(2);
    }
    confirmed
}
