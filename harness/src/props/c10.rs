//! C10 — pre-computed results can be substituted for closed sub-formulae.
//! Metamorphic oracle: result(original) == result(formula in which closed sub-formulae are replaced
//! by wild-card propositions bound to their raw results), any number of simultaneous replacements;
//! and plain formulae through the extended entry points with an empty context == plain entry points.

use super::common::*;
use crate::ast::*;
use crate::engine::*;
use crate::gen::{self, FCfg};
use crate::model::Net;
use crate::sem::*;
use biodivine_hctl_model_checker::evaluation::LabelToSetMap;
use biodivine_hctl_model_checker::model_checking::*;
use proptest::prelude::*;
use serde_json::{json, Value};
use std::collections::HashMap;

pub struct C10;

/// Closed, non-atomic, strict sub-formulae (candidates for replacement), in pre-order, distinct.
pub fn closed_candidates(f: &F) -> Vec<F> {
    let mut out: Vec<F> = vec![];
    for (i, s) in f.subformulas().into_iter().enumerate() {
        if i == 0 {
            continue;
        }
        if s.size() >= 2 && s.is_closed() && !out.contains(s) {
            out.push(s.clone());
        }
    }
    out
}

/// Replace every occurrence of each chosen sub-formula (outermost first) by its wild-card.
pub fn substitute(f: &F, chosen: &[(F, String)]) -> F {
    if let Some((_, label)) = chosen.iter().find(|(s, _)| s == f) {
        return F::Wild(label.clone());
    }
    match f {
        F::Un(op, a) => F::Un(*op, Box::new(substitute(a, chosen))),
        F::Bin(op, a, b) => F::Bin(*op, Box::new(substitute(a, chosen)), Box::new(substitute(b, chosen))),
        F::Hyb(op, v, d, a) => F::Hyb(*op, v.clone(), d.clone(), Box::new(substitute(a, chosen))),
        other => other.clone(),
    }
}

pub fn check_substitution(
    prefix: &str,
    case: &SemCase,
    g: &biodivine_lib_param_bn::symbolic_async_graph::SymbolicAsyncGraph,
    f: &F,
    sym: &LabelToSetMap,
    selectors: &[u64],
) -> Result<(bool, Vec<String>), Failure> {
    check_substitution_of(prefix, case, g, f, sym, selectors, &[])
}

/// `parts`: if non-empty, exactly these sub-formulae are replaced (all of them at once) instead of
/// the ones picked by the selectors.
#[allow(clippy::too_many_arguments)]
pub fn check_substitution_of(
    prefix: &str,
    case: &SemCase,
    g: &biodivine_lib_param_bn::symbolic_async_graph::SymbolicAsyncGraph,
    f: &F,
    sym: &LabelToSetMap,
    selectors: &[u64],
    parts: &[F],
) -> Result<(bool, Vec<String>), Failure> {
    let text = f.canon();
    macro_rules! run {
        ($name:expr, $e:expr) => {
            match guard(|| $e) {
                Err(p) => return Err(panic_fail(prefix, $name, &p, case)),
                Ok(Err(e)) => {
                    return Err(fail(
                        &format!("{prefix}:unexpected-error:{}", $name),
                        format!("{} returned Err({e}) on a valid input", $name),
                        case,
                    ))
                }
                Ok(Ok(v)) => v,
            }
        };
    }
    let original = run!(
        "model_check_extended_formula_dirty",
        model_check_extended_formula_dirty(&text, g, sym)
    );
    let mut classes = vec![];
    // plain formula: extended entry points with an empty context == plain entry points
    if !f.has_wild_or_domain() {
        let empty: LabelToSetMap = HashMap::new();
        let a = run!("model_check_formula_dirty", model_check_formula_dirty(&text, g));
        let b = run!(
            "model_check_extended_formula_dirty",
            model_check_extended_formula_dirty(&text, g, &empty)
        );
        let c = run!("model_check_formula", model_check_formula(&text, g));
        let d = run!(
            "model_check_extended_formula",
            model_check_extended_formula(&text, g, &empty)
        );
        if a != b || a != original || c != d {
            return Err(fail(
                &format!("{prefix}:plain-vs-extended-empty-context"),
                format!("`{text}`: plain entry points and extended entry points with an empty context disagree"),
                case,
            ));
        }
        classes.push("plain-through-extended".to_string());
    }
    // choose up to 3 disjoint closed sub-formulae
    let cands = closed_candidates(f);
    let mut chosen: Vec<(F, String)> = vec![];
    // The label of a replacement is any name over [A-Za-z0-9_] (the tokenizer's `collect_name`);
    // the naming scheme is a function of the generated case: `w_<i>`, bare numbers, the spellings
    // of the Boolean constants, or names that look like operators / internal variable names.
    let scheme = if parts.is_empty() {
        selectors.iter().fold(0u64, |a, s| a.wrapping_mul(31).wrapping_add(*s)) % 4
    } else {
        (parts.len() as u64) % 4
    };
    let format_label = |i: usize| -> String {
        const CONSTANTS: [&str; 6] = ["1", "0", "true", "False", "True", "false"];
        const OPERATORS: [&str; 12] = ["EX", "AG", "V", "x", "in", "xx", "E", "3", "A", "U", "bind", "W"];
        match scheme {
            1 => format!("{i}"),
            2 if i < CONSTANTS.len() => CONSTANTS[i].to_string(),
            3 if i < OPERATORS.len() => OPERATORS[i].to_string(),
            _ => format!("w_{i}"),
        }
    };
    for (i, part) in parts.iter().enumerate() {
        let overlaps = chosen
            .iter()
            .any(|(s, _)| s.subformulas().contains(&part) || part.subformulas().contains(&s));
        if cands.contains(part) && !overlaps {
            chosen.push((part.clone(), format_label(i)));
        }
    }
    for (i, sel) in selectors.iter().enumerate() {
        if cands.is_empty() || !parts.is_empty() {
            break;
        }
        let c = &cands[(*sel as usize) % cands.len()];
        // disjoint: neither contains the other
        let overlaps = chosen
            .iter()
            .any(|(s, _)| s.subformulas().contains(&c) || c.subformulas().contains(&s));
        if !overlaps {
            chosen.push((c.clone(), format_label(i)));
        }
    }
    if chosen.is_empty() {
        return Ok((false, classes));
    }
    let mut ctx2 = sym.clone();
    for (s, label) in &chosen {
        let raw = run!(
            "model_check_extended_formula_dirty",
            model_check_extended_formula_dirty(&s.canon(), g, sym)
        );
        ctx2.insert(label.clone(), raw);
    }
    let replaced = substitute(f, &chosen);
    let rtext = replaced.canon();
    let got = run!(
        "model_check_extended_formula_dirty",
        model_check_extended_formula_dirty(&rtext, g, &ctx2)
    );
    if got != original {
        return Err(fail(
            &format!("{prefix}:substitution-changes-result"),
            format!(
                "`{text}` and `{rtext}` (with {} bound to the raw results of {:?}) evaluate to different sets",
                chosen.iter().map(|(_, l)| format!("%{l}%")).collect::<Vec<_>>().join(", "),
                chosen.iter().map(|(s, _)| s.canon()).collect::<Vec<_>>()
            ),
            case,
        ));
    }
    let got_s = run!(
        "model_check_extended_formula",
        model_check_extended_formula(&rtext, g, &ctx2)
    );
    let orig_s = run!(
        "model_check_extended_formula",
        model_check_extended_formula(&text, g, sym)
    );
    if got_s != orig_s {
        return Err(fail(
            &format!("{prefix}:substitution-changes-sanitised-result"),
            format!("`{text}` vs `{rtext}`: sanitised results differ"),
            case,
        ));
    }
    classes.push(format!("label-scheme={}", ["w_i", "numbers", "constant-spellings", "operator-like"][scheme as usize]));
    classes.push(format!("replacements={}", if chosen.len() >= 8 { ">=8".to_string() } else { chosen.len().to_string() }));
    let occurrences = replaced.count(&|g| matches!(g, F::Wild(w) if chosen.iter().any(|(_, l)| l == w)));
    if occurrences > chosen.len() {
        classes.push("same-wild-card-several-times".into());
    }
    if f.has(&|g| matches!(g, F::Hyb(_, _, Some(_), a) if chosen.iter().any(|(s, _)| a.subformulas().contains(&s)))) {
        classes.push("replacement-inside-restricted-scope".into());
    }
    Ok((true, classes))
}

fn check(case: &SemCase, net: &Net, f: &F) -> Verdict {
    if !f.is_closed() {
        return Verdict::Discard("outside-C10-domain");
    }
    let sym = symbolic_context(net, &case.context);
    let selectors: Vec<u64> = case
        .extra
        .get("selectors")
        .and_then(|s| s.as_array())
        .map(|a| a.iter().filter_map(|x| x.as_u64()).collect())
        .unwrap_or_else(|| vec![0, 1, 2]);
    // "wide" cases: the formula is a combination of up to 12 closed parts, all replaced at once
    let parts: Vec<F> = case
        .extra
        .get("parts")
        .and_then(|s| s.as_array())
        .map(|a| {
            a.iter()
                .filter_map(|x| x.as_str())
                .filter_map(|t| crate::refparse::parse(t, true).ok())
                .collect()
        })
        .unwrap_or_default();
    match check_substitution_of("C10", case, &net.graph, f, &sym, &selectors, &parts) {
        Err(fl) => Verdict::Fail(fl),
        Ok((nontrivial, mut classes)) => {
            classes.extend(net_classes(net));
            Verdict::Pass(CaseReport {
                nontrivial,
                key: case.key(),
                classes,
                sample: case.sample(),
            })
        }
    }
}

/// A case on a bundled benchmark model (`aeon` = "bundled:<index>").
fn check_bundled(case: &SemCase) -> Verdict {
    let idx: usize = case.aeon.trim_start_matches("bundled:").parse().unwrap_or(0);
    let (name, bn) = match crate::bundled::load_model(idx) {
        Ok(x) => x,
        Err(_) => return Verdict::Discard("bundled-model-not-loadable"),
    };
    let g = match crate::bundled::graph_for(&bn, case.k) {
        Ok(g) => g,
        Err(_) => return Verdict::Discard("constraints-unsatisfiable"),
    };
    let f = case.parsed().remove(0);
    let selectors: Vec<u64> = case.extra["selectors"]
        .as_array()
        .map(|a| a.iter().filter_map(|x| x.as_u64()).collect())
        .unwrap_or_else(|| vec![0]);
    match check_substitution("C10", case, &g, &f, &HashMap::new(), &selectors) {
        Err(fl) => Verdict::Fail(fl),
        Ok((nontrivial, mut classes)) => {
            classes.push(format!("model:{name}"));
            Verdict::Pass(CaseReport {
                nontrivial,
                key: case.key(),
                classes,
                sample: json!({"model": name, "formula": case.formulas[0]}),
            })
        }
    }
}

impl Property for C10 {
    type Raw = (RawSem, bool, Vec<u16>);
    fn id(&self) -> &'static str {
        "C10"
    }
    fn rule(&self) -> String {
        "random network (plus bundled benchmark models in the thorough tier) x closed plain or extended formula x 1-3 disjoint closed non-atomic strict sub-formulae at random positions, or (one case in seven) a formula joined from 4-12 closed parts all of which are replaced at once (up to 12 simultaneous wild-cards, some of them bound to equal sets) (all syntactic occurrences of a chosen sub-formula are replaced by the same wild-card). Oracle: raw and sanitised result of the original == result of the substituted formula with the wild-cards bound to the sub-formulae's raw results; plain formulae through the extended entry points with an empty context == plain entry points. Non-trivial: at least one replacement was made (the replaced sub-formula has >= 1 operator and is a strict sub-formula).".into()
    }
    fn assumptions(&self) -> Vec<String> {
        vec!["only closed sub-formulae are replaced; their raw sets come from the dirty entry point on the same graph object".into()]
    }
    fn cases(&self, tier: Tier) -> u32 {
        tier.pick(25_000, 800_000)
    }
    fn strategy(&self, tier: Tier) -> BoxedStrategy<Self::Raw> {
        let sels = prop::collection::vec(any::<u16>(), 1..=3);
        prop_oneof![
            6 => (raw_sem(tier.pick(3, 4), 1..=1, 5, tier.pick(18, 24)), any::<bool>(), sels.clone()),
            // wide formulae: 4-12 closed parts joined by binary operators, every part replaced
            1 => (raw_sem(tier.pick(3, 4), 4..=12, 3, 8), any::<bool>(), sels),
        ]
        .boxed()
    }
    fn check_raw(&self, raw: &Self::Raw) -> Verdict {
        let cfg = if raw.1 { FCfg::EXTENDED_WEAK } else { FCfg::PLAIN_WEAK };
        match resolve_sem(&raw.0, cfg) {
            Err(r) => Verdict::Discard(r),
            Ok((mut case, fs, net)) => {
                case.extra = json!({"selectors": raw.2.iter().map(|x| *x as u64).collect::<Vec<_>>()});
                if fs.len() == 1 {
                    return check(&case, &net, &fs[0]);
                }
                // join the parts (right-nested) by operators derived from the selectors
                let mut f = fs[fs.len() - 1].clone();
                for (i, part) in fs.iter().enumerate().rev().skip(1) {
                    let sel = raw.2[i % raw.2.len()] as usize + i;
                    let op = [BinOp::And, BinOp::Or, BinOp::Xor, BinOp::Iff, BinOp::Imp, BinOp::EU, BinOp::AW][sel % 7];
                    f = F::Bin(op, Box::new(part.clone()), Box::new(f));
                }
                case.extra["parts"] = json!(fs.iter().map(|p| p.canon()).collect::<Vec<_>>());
                case.formulas = vec![f.canon()];
                check(&case, &net, &f)
            }
        }
    }
    fn replay(&self, case: &Value) -> Verdict {
        if case["aeon"].as_str().map(|a| a.starts_with("bundled:")).unwrap_or(false) {
            return match SemCase::from_json(case) {
                Ok(c) => check_bundled(&c),
                Err(_) => Verdict::Discard("unreadable-case"),
            };
        }
        replay_with(case, |case, net, fs| check(case, net, &fs[0]))
    }
    fn extra_stages(&self, tier: Tier, seed: u64, stats: &mut Stats) -> Option<Failure> {
        // benchmark-size models: a deterministic stream of (formula, selectors) per model
        use crate::bundled::*;
        let models = tier.pick(3, MODELS.len());
        let per_model = tier.pick(3, 25);
        let failure: std::sync::Mutex<Option<Failure>> = std::sync::Mutex::new(None);
        let reports: std::sync::Mutex<Vec<CaseReport>> = std::sync::Mutex::new(vec![]);
        std::thread::scope(|scope| {
            for m in 0..models {
                let (failure, reports) = (&failure, &reports);
                scope.spawn(move || {
                    let Ok((_, bn)) = load_model(m) else { harness_error("bundled model not loadable") };
                    let strat = (gen::raw_f(4, 10), prop::collection::vec(any::<u16>(), 1..=2));
                    for (raw, sels) in sample_stream(&strat, mix(seed, 2000 + m as u64), per_model) {
                        if failure.lock().unwrap().is_some() {
                            return;
                        }
                        let f = bundled_formula(&raw, &bn, HYBRID_OK_ON.contains(&m));
                        let case = SemCase {
                            aeon: format!("bundled:{m}"),
                            k: f.quant_depth() as u16,
                            formulas: vec![f.canon()],
                            context: Default::default(),
                            extra: json!({"selectors": sels.iter().map(|x| *x as u64).collect::<Vec<_>>()}),
                        };
                        match guard(|| check_bundled(&case)) {
                            Ok(Verdict::Fail(fl)) => {
                                failure.lock().unwrap().get_or_insert(fl);
                                return;
                            }
                            Ok(Verdict::Pass(rep)) => reports.lock().unwrap().push(rep),
                            Ok(Verdict::Discard(r)) => harness_error(&format!("bundled case discarded: {r}")),
                            Err(p) => harness_error(&format!("panic in the harness on a bundled model: {p}")),
                        }
                    }
                });
            }
        });
        let reports = reports.into_inner().unwrap();
        stats.stages.insert("bundled".into(), json!({"models": models, "cases_per_model": per_model, "cases": reports.len()}));
        for r in reports {
            stats.add(r);
        }
        failure.into_inner().unwrap()
    }
}
