//! C18 — the self-loop-free evaluation variant agrees with standard evaluation where loops cannot
//! matter: (a) formulae without EX, AX, AF, EG, AU, EW on any network; (b) any plain formula on
//! networks in which no colour has a steady state.

use super::common::*;
use crate::ast::*;
use crate::engine::*;
use crate::gen::FCfg;
use crate::model::Net;
use crate::sem::*;
use biodivine_hctl_model_checker::model_checking::*;
use proptest::prelude::*;
use serde_json::Value;

pub struct C18;

fn uses_self_loops(f: &F) -> bool {
    f.has(&|g| {
        matches!(
            g,
            F::Un(UnOp::EX | UnOp::AX | UnOp::AF | UnOp::EG, _) | F::Bin(BinOp::AU | BinOp::EW, _, _)
        )
    })
}

/// Map a formula into the fragment without EX, AX, AF, EG, AU, EW.
fn into_fragment(f: &F) -> F {
    match f {
        F::Un(op, a) => {
            let op = match op {
                UnOp::EX | UnOp::AF => UnOp::EF,
                UnOp::AX | UnOp::EG => UnOp::AG,
                o => *o,
            };
            F::Un(op, Box::new(into_fragment(a)))
        }
        F::Bin(op, a, b) => {
            let op = match op {
                BinOp::AU => BinOp::EU,
                BinOp::EW => BinOp::AW,
                o => *o,
            };
            F::Bin(op, Box::new(into_fragment(a)), Box::new(into_fragment(b)))
        }
        F::Hyb(op, v, d, a) => F::Hyb(*op, v.clone(), d.clone(), Box::new(into_fragment(a))),
        other => other.clone(),
    }
}

fn check(case: &SemCase, net: &Net, f: &F) -> Verdict {
    if !f.is_closed() || f.has_wild_or_domain() {
        return Verdict::Discard("outside-C18-domain");
    }
    let valid = net.valid_colours();
    let has_steady = valid.iter().any(|c| net.ts(*c).steady != 0);
    let in_fragment = !uses_self_loops(f);
    if has_steady && !in_fragment {
        return Verdict::Discard("loops-may-matter");
    }
    let g = &net.graph;
    let text = &case.formulas[0];
    let standard = call_ok!("C18", case, "model_check_formula_dirty", model_check_formula_dirty(text, g));
    let unsafe_ex = call_ok!("C18", case, "model_check_formula_unsafe_ex", model_check_formula_unsafe_ex(text, g));
    if standard != unsafe_ex {
        return Verdict::Fail(fail(
            if in_fragment { "C18:differs-on-loop-insensitive-fragment" } else { "C18:differs-on-steady-state-free-network" },
            format!("`{text}`: model_check_formula_unsafe_ex differs from model_check_formula_dirty"),
            case,
        ));
    }
    // the standard result is also what the explicit semantics says (ties the pair to C01/C13)
    let colours = sample_colours(net, 16);
    let want = &expected_many(net, std::slice::from_ref(f), &case.context, &colours)[0];
    if let Err(m) = compare_raw(net, &unsafe_ex, &colours, want) {
        return Verdict::Fail(fail("C18:mismatch", format!("model_check_formula_unsafe_ex: {m}"), case));
    }
    let mut classes = net_classes(net);
    classes.extend(formula_classes(f));
    let nontrivial = if in_fragment && has_steady {
        classes.push("a:fragment-on-network-with-steady-states".into());
        f.has(&|g| matches!(g, F::Un(UnOp::EF | UnOp::AG, _) | F::Bin(BinOp::EU | BinOp::AW, _, _)))
    } else {
        classes.push("b:steady-state-free-network".into());
        if in_fragment {
            false
        } else {
            classes.push("b:formula-with-EX-based-operator".into());
            true
        }
    };
    Verdict::Pass(CaseReport {
        nontrivial,
        key: case.key(),
        classes,
        sample: case.sample(),
    })
}

impl Property for C18 {
    type Raw = (RawSem, bool);
    fn id(&self) -> &'static str {
        "C18"
    }
    fn rule(&self) -> String {
        "(a) random network x closed plain formula mapped into the fragment without EX, AX, AF, EG, AU, EW (EF, AG, EU, AW and all hybrid operators remain); (b) random network forced to be steady-state free (one variable with update function `!v`; checked with the explicit model for every valid colour) x any closed plain formula incl. EW/AW and the two shortcut patterns. Oracle: model_check_formula_unsafe_ex == model_check_formula_dirty (BDD equality), and == explicit semantics (16 colours). Non-trivial: (a) the formula has EF/AG/EU/AW and some valid colour has a steady state; (b) the formula has an EX-based operator.".into()
    }
    fn assumptions(&self) -> Vec<String> {
        vec!["same trusted base as C01; steady states are determined with the explicit model".into()]
    }
    fn cases(&self, tier: Tier) -> u32 {
        tier.pick(40_000, 1_000_000)
    }
    fn strategy(&self, tier: Tier) -> BoxedStrategy<Self::Raw> {
        (raw_sem(tier.pick(3, 4), 1..=1, 5, tier.pick(16, 22)), any::<bool>()).boxed()
    }
    fn check_raw(&self, raw: &Self::Raw) -> Verdict {
        let mut r = raw.0.clone();
        // half of the cases: steady-state-free network, any formula; other half: fragment
        r.net.force_oscillator = raw.1;
        let fragment = !raw.1;
        let resolved = resolve_sem_with(&r, FCfg::PLAIN_WEAK, |env, raws| {
            let f = crate::gen::resolve_f(&raws[0], env);
            vec![if fragment { into_fragment(&f) } else { f }]
        });
        match resolved {
            Err(r) => Verdict::Discard(r),
            Ok((case, fs, net)) => check(&case, &net, &fs[0]),
        }
    }
    fn replay(&self, case: &Value) -> Verdict {
        replay_with(case, |case, net, fs| check(case, net, &fs[0]))
    }
}
