//! C18 — the self-loop-free evaluation variant agrees with standard evaluation where loops cannot
//! matter: (a) formulae without EX, AX, AF, EG, AU, EW on any network; (b) any plain formula on
//! networks in which no colour has a steady state.

use super::common::*;
use crate::ast::*;
use crate::engine::*;
use crate::gen::FCfg;
use crate::model::Net;
use crate::sem::*;
use biodivine_hctl_model_checker::model_checking::*;
use proptest::prelude::*;
use serde_json::Value;

pub struct C18;

fn uses_self_loops(f: &F) -> bool {
    f.has(&|g| {
        matches!(
            g,
            F::Un(UnOp::EX | UnOp::AX | UnOp::AF | UnOp::EG, _) | F::Bin(BinOp::AU | BinOp::EW, _, _)
        )
    })
}

/// Map a formula into the fragment without EX, AX, AF, EG, AU, EW.
fn into_fragment(f: &F) -> F {
    match f {
        F::Un(op, a) => {
            let op = match op {
                UnOp::EX | UnOp::AF => UnOp::EF,
                UnOp::AX | UnOp::EG => UnOp::AG,
                o => *o,
            };
            F::Un(op, Box::new(into_fragment(a)))
        }
        F::Bin(op, a, b) => {
            let op = match op {
                BinOp::AU => BinOp::EU,
                BinOp::EW => BinOp::AW,
                o => *o,
            };
            F::Bin(op, Box::new(into_fragment(a)), Box::new(into_fragment(b)))
        }
        F::Hyb(op, v, d, a) => F::Hyb(*op, v.clone(), d.clone(), Box::new(into_fragment(a))),
        other => other.clone(),
    }
}

fn check(case: &SemCase, net: &Net, f: &F) -> Verdict {
    if !f.is_closed() || f.has_wild_or_domain() {
        return Verdict::Discard("outside-C18-domain");
    }
    let valid = net.valid_colours();
    let has_steady = valid.iter().any(|c| net.ts(*c).steady != 0);
    let in_fragment = !uses_self_loops(f);
    if has_steady && !in_fragment {
        return Verdict::Discard("loops-may-matter");
    }
    let g = &net.graph;
    let text = &case.formulas[0];
    let standard = call_ok!("C18", case, "model_check_formula_dirty", model_check_formula_dirty(text, g));
    let unsafe_ex = call_ok!("C18", case, "model_check_formula_unsafe_ex", model_check_formula_unsafe_ex(text, g));
    if standard != unsafe_ex {
        return Verdict::Fail(fail(
            if in_fragment { "C18:differs-on-loop-insensitive-fragment" } else { "C18:differs-on-steady-state-free-network" },
            format!("`{text}`: model_check_formula_unsafe_ex differs from model_check_formula_dirty"),
            case,
        ));
    }
    // the standard result is also what the explicit semantics says (ties the pair to C01/C13)
    let colours = sample_colours(net, 16);
    let want = &expected_many(net, std::slice::from_ref(f), &case.context, &colours)[0];
    if let Err(m) = compare_raw(net, &unsafe_ex, &colours, want) {
        return Verdict::Fail(fail("C18:mismatch", format!("model_check_formula_unsafe_ex: {m}"), case));
    }
    let mut classes = net_classes(net);
    classes.extend(formula_classes(f));
    let nontrivial = if in_fragment && has_steady {
        classes.push("a:fragment-on-network-with-steady-states".into());
        f.has(&|g| matches!(g, F::Un(UnOp::EF | UnOp::AG, _) | F::Bin(BinOp::EU | BinOp::AW, _, _)))
    } else {
        classes.push("b:steady-state-free-network".into());
        if in_fragment {
            false
        } else {
            classes.push("b:formula-with-EX-based-operator".into());
            true
        }
    };
    Verdict::Pass(CaseReport {
        nontrivial,
        key: case.key(),
        classes,
        sample: case.sample(),
    })
}

/// The pair of evaluation variants on a case beyond the explicit evaluator's reach: both must be
/// equal, and (through `check_scale`) equal to the reference symbolic evaluator's result.
fn check_scale_pair(case: &crate::scale::ScaleCase, budget: std::time::Duration) -> Verdict {
    crate::scale::check_scale_with("C18", case, budget, std::sync::Arc::new(|graph: &biodivine_lib_param_bn::symbolic_async_graph::SymbolicAsyncGraph, text: &str, reference: &biodivine_lib_param_bn::symbolic_async_graph::GraphColoredVertices| {
        match model_check_formula_unsafe_ex(text, graph) {
            Err(e) => Some(("unexpected-error:model_check_formula_unsafe_ex".to_string(), format!("model_check_formula_unsafe_ex returned Err({e}) on `{text}`"))),
            Ok(r) if &r != reference => Some((
                "differs-on-loop-insensitive-fragment".to_string(),
                format!("`{text}`: model_check_formula_unsafe_ex differs from model_check_formula_dirty: {}", crate::scale::witness_of(graph, &r, reference)),
            )),
            Ok(_) => None,
        }
    }))
}

impl Property for C18 {
    type Raw = crate::scale::WithMid<(RawSem, bool)>;
    fn id(&self) -> &'static str {
        "C18"
    }
    fn rule(&self) -> String {
        "(a) random network x closed plain formula mapped into the fragment without EX, AX, AF, EG, AU, EW (EF, AG, EU, AW and all hybrid operators remain); (b) random network forced to be steady-state free (one variable with update function `!v`; checked with the explicit model for every valid colour) x any closed plain formula incl. EW/AW and the two shortcut patterns. Oracle: model_check_formula_unsafe_ex == model_check_formula_dirty (BDD equality), and == explicit semantics (16 colours). (c) ~1 % of the random cases: generated mid-size networks (7-10 variables plus 0-8 frozen ones) x fragment formula, and a deterministic stage of 14 / 56 fragment formulae on 20 / 30 bundled models: both variants equal to each other and to the reference symbolic evaluator (refsym.rs; calibrated at the start of the run). Non-trivial: (a) the formula has EF/AG/EU/AW and some valid colour has a steady state; (b) the formula has an EX-based operator.".into()
    }
    fn assumptions(&self) -> Vec<String> {
        vec!["same trusted base as C01; steady states are determined with the explicit model".into()]
    }
    fn cases(&self, tier: Tier) -> u32 {
        tier.pick(40_000, 1_000_000)
    }
    fn strategy(&self, tier: Tier) -> BoxedStrategy<Self::Raw> {
        crate::scale::with_mid((raw_sem(tier.pick(3, 4), 1..=1, 5, tier.pick(16, 22)), any::<bool>()).boxed(), tier.pick(99, 249), 1, tier.pick(600, 2500))
    }
    fn check_raw(&self, raw: &Self::Raw) -> Verdict {
        let raw = match raw {
            crate::scale::WithMid::Small(r) => r,
            crate::scale::WithMid::Mid(raw, ms) => {
                // mid-size network (7-18 variables): fragment formula, both variants against the reference
                let mut net = raw.0.clone();
                net.heavy = net.heavy && *ms >= 1000;
                return match crate::scale::mid_case_with(&net, &raw.1, raw.2, FCfg::PLAIN_WEAK, &raw.3) {
                    Err(r) => Verdict::Discard(r),
                    Ok(mut case) => {
                        let f = crate::refparse::parse(&case.formula, false).expect("own rendering");
                        case.formula = into_fragment(&f).canon();
                        check_scale_pair(&case, std::time::Duration::from_millis(*ms))
                    }
                };
            }
        };
        let mut r = raw.0.clone();
        // half of the cases: steady-state-free network, any formula; other half: fragment
        r.net.force_oscillator = raw.1;
        let fragment = !raw.1;
        let resolved = resolve_sem_with(&r, FCfg::PLAIN_WEAK, |env, raws| {
            let f = crate::gen::resolve_f(&raws[0], env);
            vec![if fragment { into_fragment(&f) } else { f }]
        });
        match resolved {
            Err(r) => Verdict::Discard(r),
            Ok((case, fs, net)) => check(&case, &net, &fs[0]),
        }
    }
    fn replay(&self, case: &Value) -> Verdict {
        if case.get("scale").is_some() {
            return match serde_json::from_value::<crate::scale::ScaleCase>(case.clone()) {
                Ok(c) => check_scale_pair(&c, std::time::Duration::from_secs(600)),
                Err(_) => Verdict::Discard("unreadable-case"),
            };
        }
        replay_with(case, |case, net, fs| check(case, net, &fs[0]))
    }
    fn extra_stages(&self, tier: Tier, seed: u64, stats: &mut Stats) -> Option<Failure> {
        // bundled models: fragment formulae, unsafe_ex == dirty == reference symbolic evaluator
        crate::scale::calibrate(seed, tier.pick(1500, 20_000), FCfg::PLAIN_WEAK, stats);
        let mut models: Vec<&str> = crate::scale::SCALE_MODELS_QUICK.to_vec();
        if tier == Tier::Thorough {
            models.extend(crate::scale::SCALE_MODELS_MORE);
        }
        crate::scale::bundled_stage_custom(
            "C18",
            &models,
            tier.pick(8, 50),
            seed,
            FCfg::PLAIN_WEAK,
            &|f| into_fragment(f),
            &|case| check_scale_pair(case, std::time::Duration::from_secs(tier.pick(5, 30))),
            stats,
        )
    }
}
