//! C14 — invalid input is rejected with an error, never a panic or a silent answer.
//! Oracle: (a) crash oracle: every string entry point returns Ok or Err, never panics; (b) an
//! independent error predicate: for inputs the reference parser accepts, Err <=> (free or
//! re-quantified variable, unknown proposition, missing context label, k < quantifier nesting
//! depth); for inputs the reference parser rejects, Err.

use super::common::panic_fail;
use crate::alpha::scope_errors;
use crate::engine::*;
use crate::gen::{self, FCfg, FEnv};
use crate::model::{BuildErr, Net};
use crate::props::c05::{style_of, LEX_CHARS};
use crate::props::c07::inject_named;
use crate::refparse;
use crate::render::{render, Choices};
use crate::sem::*;
use biodivine_hctl_model_checker::evaluation::LabelToSetMap;
use biodivine_hctl_model_checker::model_checking::*;
use biodivine_lib_param_bn::BooleanNetwork;
use proptest::prelude::*;
use serde_json::{json, Value};

pub struct C14;

#[derive(Clone, Copy, PartialEq, Debug)]
enum Expect {
    Ok,
    Err,
}

fn expectation(net: &Net, text: &str, extended: bool, ctx: &LabelToSetMap) -> (Expect, &'static str) {
    let f = match refparse::parse(text, extended) {
        Err(_) => return (Expect::Err, "syntax"),
        Ok(f) => f,
    };
    let known = |p: &str| net.var_names.iter().any(|v| v == p);
    let errs = scope_errors(&f, &known);
    if !errs.is_empty() {
        return (
            Expect::Err,
            match errs[0] {
                crate::alpha::ScopeError::FreeVariable(_) => "free-variable",
                crate::alpha::ScopeError::FreeJumpTarget(_) => "free-jump-target",
                crate::alpha::ScopeError::Requantified(_) => "re-quantified",
                crate::alpha::ScopeError::UnknownProposition(_) => "unknown-proposition",
            },
        );
    }
    let (w, d) = f.labels();
    if w.iter().chain(d.iter()).any(|l| !ctx.contains_key(l)) {
        return (Expect::Err, "missing-label");
    }
    if (net.k as usize) < f.quant_depth() {
        return (Expect::Err, "too-few-spare-variable-sets");
    }
    (Expect::Ok, "valid")
}

pub fn check(case: &SemCase, net: &Net) -> Verdict {
    let g = &net.graph;
    let ctx = symbolic_context(net, &case.context);
    let texts: Vec<&str> = case.formulas.iter().map(|s| s.as_str()).collect();
    let mut classes = net_classes(net);
    let mut nontrivial = false;
    // per formula expectations
    let mut exp_plain = vec![];
    let mut exp_ext = vec![];
    for t in &texts {
        let p = expectation(net, t, false, &ctx);
        let e = expectation(net, t, true, &ctx);
        classes.push(format!("plain:{}", p.1));
        classes.push(format!("extended:{}", e.1));
        if e.0 == Expect::Err && e.1 != "syntax" {
            nontrivial = true;
        }
        if e.0 == Expect::Ok {
            if let Ok(f) = refparse::parse(t, true) {
                if f.quant_depth() >= 1 && f.quant_depth() == net.k as usize {
                    nontrivial = true;
                    classes.push("k-equals-depth".into());
                }
            }
        }
        exp_plain.push(p);
        exp_ext.push(e);
    }
    let all = |v: &[(Expect, &'static str)]| {
        if v.iter().all(|x| x.0 == Expect::Ok) {
            Expect::Ok
        } else {
            Expect::Err
        }
    };
    macro_rules! entry {
        ($name:expr, $expect:expr, $what:expr, $e:expr) => {
            match guard(|| $e) {
                Err(p) => return Verdict::Fail(panic_fail("C14", $name, &p, case)),
                Ok(r) => {
                    let got = if r.is_ok() { Expect::Ok } else { Expect::Err };
                    if got != $expect {
                        return Verdict::Fail(fail(
                            &format!("C14:{}:{}", if got == Expect::Ok { "silent-answer" } else { "spurious-error" }, $name),
                            format!(
                                "{} on {:?} with k={} and labels {:?}: returned {}, expected {:?} ({})",
                                $name,
                                $what,
                                net.k,
                                ctx.keys().collect::<Vec<_>>(),
                                match &r { Ok(_) => "a result".to_string(), Err(e) => format!("Err({e})") },
                                $expect,
                                "independent predicate over the reference parse"
                            ),
                            case,
                        ));
                    }
                }
            }
        };
    }
    // single-formula entry points on the first formula
    let t0 = texts[0];
    let (p0, e0) = (exp_plain[0].0, exp_ext[0].0);
    entry!("model_check_formula", p0, t0, model_check_formula(t0, g));
    entry!("model_check_formula_dirty", p0, t0, model_check_formula_dirty(t0, g));
    entry!("model_check_formula_unsafe_ex", p0, t0, model_check_formula_unsafe_ex(t0, g));
    entry!("model_check_extended_formula", e0, t0, model_check_extended_formula(t0, g, &ctx));
    entry!("model_check_extended_formula_dirty", e0, t0, model_check_extended_formula_dirty(t0, g, &ctx));
    // batch entry points on the whole list
    let (pa, ea) = (all(&exp_plain), all(&exp_ext));
    entry!("model_check_multiple_formulae", pa, texts, model_check_multiple_formulae(texts.clone(), g));
    entry!("model_check_multiple_formulae_dirty", pa, texts, model_check_multiple_formulae_dirty(texts.clone(), g));
    entry!(
        "model_check_multiple_extended_formulae",
        ea,
        texts,
        model_check_multiple_extended_formulae(texts.clone(), g, &ctx)
    );
    entry!(
        "model_check_multiple_extended_formulae_dirty",
        ea,
        texts,
        model_check_multiple_extended_formulae_dirty(texts.clone(), g, &ctx)
    );
    classes.push(format!("k={}", net.k));
    Verdict::Pass(CaseReport {
        nontrivial,
        key: case.key(),
        classes,
        sample: case.sample(),
    })
}

/// Labels of wild-cards and domains: the shared pool plus two names that coincide with spellings
/// of the constants (any name over [A-Za-z0-9_] is a label; a missing one must be reported).
const C14_LABELS: [&str; 6] = ["d", "e", "p", "A1", "0", "True"];

#[derive(Clone, Debug)]
pub struct RawC14 {
    sem: RawSem,
    inject: Option<(u8, u16)>,
    style: u8,
    choices: Vec<u16>,
    muts: Vec<(u8, u16, u16)>,
    label_mask: u8,
    k_delta: i8,
}

impl Property for C14 {
    type Raw = RawC14;
    fn id(&self) -> &'static str {
        "C14"
    }
    fn rule(&self) -> String {
        "random network x 1-3 formula strings (generated closed extended formulae rendered in a random style; one of them optionally with an injected invalidity - free variable, free jump target, re-quantification, unknown proposition - and/or a character-level mutation incl. unicode) x context map = random subset of the label pool x graph with k = nesting depth + delta (delta in -2..2) spare variable sets; 9 string entry points (plain, dirty, unsafe_ex, extended, batch). Oracle: no panic; Ok/Err equals an independent predicate over the reference parse. Non-trivial: a syntactically valid input whose expected outcome is Err, or a valid input evaluated with k == depth >= 1.".into()
    }
    fn assumptions(&self) -> Vec<String> {
        vec![
            "context sets are valid for the graph (inside the unit set, no extra variables); panics while *building* inputs (lib-param-bn) are not counted".into(),
            "nesting of groups/operators is bounded by the generator (<= ~30), stack exhaustion is outside the stated domain".into(),
        ]
    }
    fn cases(&self, tier: Tier) -> u32 {
        tier.pick(40_000, 1_500_000)
    }
    fn strategy(&self, tier: Tier) -> BoxedStrategy<RawC14> {
        (
            raw_sem(3, 1..=3, 4, tier.pick(12, 16)),
            prop::option::weighted(0.35, (0..4u8, any::<u16>())),
            any::<u8>(),
            prop::collection::vec(any::<u16>(), 0..16),
            prop_oneof![3 => Just(vec![]), 1 => prop::collection::vec((any::<u8>(), any::<u16>(), any::<u16>()), 1..=2)],
            prop_oneof![3 => Just(0xffu8), 1 => any::<u8>()],
            -2..=2i8,
        )
            .prop_map(|(sem, inject, style, choices, muts, label_mask, k_delta)| RawC14 {
                sem,
                inject,
                style,
                choices,
                muts,
                label_mask,
                k_delta,
            })
            .boxed()
    }
    fn check_raw(&self, raw: &RawC14) -> Verdict {
        let aeon = gen::resolve_net(&raw.sem.net);
        let bn = match BooleanNetwork::try_from(aeon.as_str()) {
            Ok(b) => b,
            Err(_) => return Verdict::Discard("aeon-not-parsed"),
        };
        let props: Vec<String> = bn.variables().map(|v| bn.get_variable_name(v).clone()).collect();
        let labels: Vec<String> = C14_LABELS.iter().map(|s| s.to_string()).collect();
        let env = FEnv {
            props: &props,
            labels: &labels,
            cfg: if raw.style & 128 != 0 { FCfg::PLAIN_WEAK } else { FCfg::EXTENDED_WEAK },
            binders: &gen::BINDERS,
        };
        let mut fs = gen::resolve_batch(&raw.sem.fs, &env);
        let depth = fs.iter().map(|f| f.quant_depth()).max().unwrap_or(0);
        if let Some((kind, pos)) = raw.inject {
            let i = gen::idx(pos, fs.len());
            // unknown propositions: an ordinary name, names of the graph's spare symbolic variables
            // (they exist as BDD variables but are not network variables), a near-constant
            let unknown = match pos % 5 {
                0 | 1 => "no_such_variable".to_string(),
                2 => format!("{}_extra_0", props[0]),
                3 => format!("{}_extra_{}", props[props.len() - 1], (pos / 5) % 3),
                _ => "true_1".to_string(),
            };
            if let Some(g) = inject_named(&fs[i], kind, pos.rotate_left(5), &unknown) {
                fs[i] = g;
            }
        }
        let k = (depth as i32 + raw.k_delta as i32).clamp(0, 5) as u16;
        let net = match Net::from_bn(bn, aeon.clone(), k) {
            Ok(n) => n,
            Err(BuildErr::Unsat(_)) => return Verdict::Discard("constraints-unsatisfiable"),
            Err(_) => return Verdict::Discard("too-large"),
        };
        let mut ch = Choices::new(raw.choices.clone());
        let mut formulas: Vec<String> = fs.iter().map(|f| render(f, style_of(raw.style), &mut ch)).collect();
        // character-level mutation of the first text
        let mut text: Vec<char> = formulas[0].chars().collect();
        for (kind, pos, c) in &raw.muts {
            if text.is_empty() {
                break;
            }
            let i = gen::idx(*pos, text.len());
            match kind % 3 {
                0 => {
                    text.remove(i);
                }
                1 => text.insert(i, LEX_CHARS[gen::idx(*c, LEX_CHARS.len())]),
                _ => {
                    if i + 1 < text.len() {
                        text.swap(i, i + 1);
                    }
                }
            }
        }
        formulas[0] = text.into_iter().collect();
        // a formula file would not contain line breaks; the API may: keep them
        let mut context = crate::gen::ExplicitContext::new();
        for (i, l) in C14_LABELS.iter().enumerate() {
            if raw.label_mask & (1 << i) != 0 {
                context.insert(l.to_string(), gen::resolve_set(&raw.sem.sets[i % raw.sem.sets.len()], &net));
            }
        }
        let case = SemCase {
            aeon,
            k,
            formulas,
            context,
            extra: json!({"injected": raw.inject.is_some(), "mutated": !raw.muts.is_empty()}),
        };
        check(&case, &net)
    }
    fn extra_stages(&self, tier: Tier, seed: u64, stats: &mut Stats) -> Option<Failure> {
        if tier != Tier::Thorough {
            return None;
        }
        crate::fuzzstage::run_fuzz_stage("api_nopanic", 150_000, 8, seed, stats, &|bytes| {
            let case = crate::fuzz_api::decode_api_case(bytes)?;
            let class = match crate::fuzz_api::api_nopanic_verdict(&case) {
                Ok(()) => return None,
                Err((class, _)) => class,
            };
            let fails = |t: &str| {
                let mut c = case.clone();
                c.formulas = vec![t.to_string()];
                matches!(crate::fuzz_api::api_nopanic_verdict(&c), Err((cl, _)) if cl == class)
            };
            let min = crate::fuzzstage::ddmin(&case.formulas[0], &fails);
            let mut c = case.clone();
            c.formulas = vec![min];
            let net = build_net(&c).ok()?;
            c.context = normalise_context(&net, &c.context);
            match check(&c, &net) {
                Verdict::Fail(f) => Some(f),
                _ => None,
            }
        })
    }
    fn replay(&self, case: &Value) -> Verdict {
        let case = match SemCase::from_json(case) {
            Ok(c) => c,
            Err(_) => return Verdict::Discard("unreadable-case"),
        };
        let net = match build_net(&case) {
            Ok(n) => n,
            Err(r) => return Verdict::Discard(r),
        };
        let mut case = case;
        case.context = normalise_context(&net, &case.context);
        check(&case, &net)
    }
}
