//! C06 — printing and parsing are inverse; syntax trees are internally consistent.
//! Oracles: round trip `parse(print(t)) == t`; every node's stored text equals an independent
//! renderer of its structure and its stored height is 1 + max child height.

use crate::ast::*;
use crate::engine::*;
use crate::gen::{self, FCfg, FEnv, RawF};
use crate::props::c05::style_of;
use crate::refparse;
use crate::render::{render, Choices};
use biodivine_hctl_model_checker::preprocessing::hctl_tree::HctlTreeNode;
use biodivine_hctl_model_checker::preprocessing::parser::{parse_extended_formula, parse_hctl_formula};
use biodivine_hctl_model_checker::preprocessing::utils::validate_props_and_rename_vars;
use biodivine_lib_param_bn::symbolic_async_graph::SymbolicContext;
use biodivine_lib_param_bn::BooleanNetwork;
use proptest::prelude::*;
use serde_json::{json, Value};

pub struct C06;

pub const PROP_STRESS: [&str; 22] = [
    "a", "EXa", "A", "E", "V1", "3a", "AUx", "true_", "x", "p_2", "Tru", "EX_", "AXX", "V_", "33",
    "é1", "_", "E3", "falsey", "٣a", "in", "v_1",
];
pub const VAR_STRESS: [&str; 12] = [
    "x", "xx", "xxx", "y", "3", "V", "EX", "true", "1a", "_", "var0", "AG",
];
pub const LABEL_STRESS: [&str; 8] = ["d", "true", "3", "V", "EX", "a_b", "1", "in"];

thread_local! {
    /// a symbolic context that knows every ASCII name of the pools as a network variable
    pub static PLACEHOLDER_CTX: SymbolicContext = {
        let mut names: Vec<&str> = gen::VAR_NAMES.to_vec();
        for p in PROP_STRESS {
            if p.is_ascii() && !names.contains(&p) {
                names.push(p);
            }
        }
        let aeon: String = names.iter().map(|n| format!("${n}: true\n")).collect();
        let bn = BooleanNetwork::try_from(aeon.as_str()).expect("placeholder network");
        SymbolicContext::new(&bn).expect("placeholder context")
    };
}

fn cfail(class: &str, f: &F, message: String) -> Failure {
    Failure {
        class: class.to_string(),
        message,
        case: json!({"formula": f}),
    }
}

/// Round trip + consistency for one crate tree.
pub fn check_tree(origin: &str, f: &F, t: &HctlTreeNode) -> Result<(), Failure> {
    if let Err(m) = tree_consistent(t) {
        return Err(cfail(&format!("C06:inconsistent-node:{origin}"), f, format!("{origin}: {m}")));
    }
    let text = t.to_string();
    match guard(|| parse_extended_formula(&text)) {
        Err(p) => Err(cfail(&format!("C06:panic:{}", panic_site(&p)), f, format!("parsing the printed tree panicked: {p}"))),
        Ok(Err(e)) => Err(cfail(
            &format!("C06:printed-text-rejected:{origin}"),
            f,
            format!("{origin}: printed text `{text}` is rejected by parse_extended_formula: {e}"),
        )),
        Ok(Ok(t2)) => {
            if &t2 != t {
                return Err(cfail(
                    &format!("C06:round-trip:{origin}"),
                    f,
                    format!("{origin}: printing `{text}` and parsing it again gives `{}` (a different tree)", t2.as_str()),
                ));
            }
            if !f.has_wild_or_domain() {
                match guard(|| parse_hctl_formula(&text)) {
                    Ok(Ok(t3)) if &t3 == t => {}
                    other => {
                        return Err(cfail(
                            &format!("C06:round-trip-plain:{origin}"),
                            f,
                            format!("{origin}: plain parser on printed text `{text}`: {:?}", other.map(|r| r.map(|t| t.formula_str))),
                        ))
                    }
                }
            }
            Ok(())
        }
    }
}

fn check_formula(f: &F, style: u8, choices: &[u16]) -> Verdict {
    // (iii) public constructors
    let t = to_tree(f);
    if from_tree(&t) != *f {
        return Verdict::Fail(cfail("C06:constructors", f, "mk_* constructors built a different structure".into()));
    }
    if let Err(fl) = check_tree("constructors", f, &t) {
        return Verdict::Fail(fl);
    }
    // (i) parser-produced trees, from a non-canonical rendering
    let mut ch = Choices::new(choices.to_vec());
    let text = render(f, style_of(style), &mut ch);
    match refparse::parse(&text, true) {
        Ok(g) if g == *f => {}
        other => harness_error(&format!("renderer self-check failed: `{text}` reads as {other:?}, expected {}", f.canon())),
    }
    match guard(|| parse_extended_formula(&text)) {
        Ok(Ok(t2)) => {
            if from_tree(&t2) != *f {
                return Verdict::Fail(cfail("C06:parser-tree", f, format!("`{text}` parsed to `{}`", t2.as_str())));
            }
            if let Err(fl) = check_tree("parser", f, &t2) {
                return Verdict::Fail(fl);
            }
        }
        other => {
            return Verdict::Fail(cfail(
                "C06:parser-rejects-rendering",
                f,
                format!("`{text}` (a rendering of `{}`): {:?}", f.canon(), other.map(|r| r.map(|t| t.formula_str))),
            ))
        }
    }
    // (ii) preprocessing output
    let ascii_props = f.props().iter().all(|p| p.is_ascii());
    let mut preprocessed = false;
    if f.is_closed() && ascii_props && crate::alpha::scope_errors(f, &|_| true).is_empty() {
        let res = PLACEHOLDER_CTX.with(|ctx| guard(|| validate_props_and_rename_vars(t.clone(), ctx)));
        match res {
            Ok(Ok(t4)) => {
                if let Err(fl) = check_tree("preprocessing", f, &t4) {
                    return Verdict::Fail(fl);
                }
                preprocessed = true;
            }
            Ok(Err(_)) => {} // C07's business
            Err(p) => return Verdict::Fail(cfail(&format!("C06:panic:{}", panic_site(&p)), f, format!("preprocessing panicked: {p}"))),
        }
    }
    let mut classes = vec![format!("height={}", f.height().min(12))];
    if f.has(&|g| matches!(g, F::Hyb(_, _, Some(_), _))) {
        classes.push("has-domain".into());
    }
    if f.has(&|g| matches!(g, F::Wild(_))) {
        classes.push("has-wild-card".into());
    }
    if f.props().iter().any(|p| p.len() > 1 && !p.starts_with('v')) {
        classes.push("stress-identifier".into());
    }
    if preprocessed {
        classes.push("preprocessed".into());
    }
    Verdict::Pass(CaseReport {
        nontrivial: f.size() >= 3,
        key: hash_of(&(f, style, choices)),
        classes,
        sample: json!({"tree": f.canon(), "rendered": text}),
    })
}

/// All formulae with at most `max_nodes` nodes over a small vocabulary.
pub fn small_formulas(max_nodes: usize) -> Vec<Vec<F>> {
    let atoms = vec![
        F::prop("p"),
        F::prop("EXq"),
        F::var("x"),
        F::var("y"),
        F::wild("w"),
        F::wild("v"),
        F::Const(true),
        F::Const(false),
    ];
    let mut by_size: Vec<Vec<F>> = vec![vec![], atoms];
    for n in 2..=max_nodes {
        let mut out = vec![];
        for a in &by_size[n - 1] {
            for op in UN_OPS {
                out.push(F::un(op, a.clone()));
            }
            for op in [HybOp::Bind, HybOp::Jump, HybOp::Exists, HybOp::Forall] {
                for v in ["x", "y"] {
                    out.push(F::hyb(op, v, None, a.clone()));
                    if op != HybOp::Jump {
                        out.push(F::hyb(op, v, Some("d"), a.clone()));
                    }
                }
            }
        }
        for left in 1..n - 1 {
            let right = n - 1 - left;
            for a in &by_size[left] {
                for b in &by_size[right] {
                    for op in BIN_OPS {
                        out.push(F::bin(op, a.clone(), b.clone()));
                    }
                }
            }
        }
        by_size.push(out);
    }
    by_size
}

impl Property for C06 {
    type Raw = (RawF, u8, Vec<u16>, Vec<u8>);
    fn id(&self) -> &'static str {
        "C06"
    }
    fn rule(&self) -> String {
        "stage A: ALL trees with <= 4 nodes over 8 atoms (2 of each kind), every unary/binary/hybrid operator, 2 variable names and one domain label, built with the public constructors; stage B: random formulae (full operator set, wild-cards, domains, identifiers that stress the tokenizer incl. unicode; optional prefix of up to 40 unary operators for depth) as trees from (i) the parsers on a random non-canonical rendering, (ii) preprocessing, (iii) the mk_* constructors. Each tree: print -> parse == tree, every node's stored text == independent canonical renderer, stored height == 1 + max child. Non-trivial: >= 3 nodes; distinct = (formula, rendering).".into()
    }
    fn assumptions(&self) -> Vec<String> {
        vec![
            "valid identifiers: a proposition is a string the reference lexer reads as one word that is not a constant spelling; variable / wild-card / domain names are non-empty name words".into(),
        ]
    }
    fn cases(&self, tier: Tier) -> u32 {
        tier.pick(150_000, 3_000_000)
    }
    fn strategy(&self, _tier: Tier) -> BoxedStrategy<Self::Raw> {
        (
            gen::raw_f(6, 28),
            any::<u8>(),
            prop::collection::vec(any::<u16>(), 0..24),
            prop_oneof![
                4 => Just(vec![]),
                1 => prop::collection::vec(0..7u8, 1..40),
            ],
        )
            .boxed()
    }
    fn check_raw(&self, raw: &Self::Raw) -> Verdict {
        let props: Vec<String> = PROP_STRESS.iter().map(|s| s.to_string()).collect();
        let labels: Vec<String> = LABEL_STRESS.iter().map(|s| s.to_string()).collect();
        let env = FEnv {
            props: &props,
            labels: &labels,
            cfg: FCfg { max_quant_depth: 6, ..FCfg::EXTENDED_WEAK },
            binders: &VAR_STRESS,
        };
        let mut f = gen::resolve_f(&raw.0, &env);
        for op in &raw.3 {
            f = F::un(UN_OPS[*op as usize % 7], f);
        }
        check_formula(&f, raw.1, &raw.2)
    }
    fn replay(&self, case: &Value) -> Verdict {
        match serde_json::from_value::<F>(case["formula"].clone()) {
            Ok(f) => check_formula(&f, 0, &[]),
            Err(_) => Verdict::Discard("unreadable-case"),
        }
    }
    fn extra_stages(&self, tier: Tier, seed: u64, stats: &mut Stats) -> Option<Failure> {
        if tier == Tier::Thorough {
            let found = crate::fuzzstage::run_fuzz_stage("roundtrip", 400_000, 8, seed, stats, &|bytes| {
                let text = String::from_utf8_lossy(bytes).to_string();
                let class = match crate::fuzz_api::roundtrip_verdict(&text) {
                    Ok(()) => return None,
                    Err((class, _)) => class,
                };
                let min = crate::fuzzstage::ddmin(&text, &|t| {
                    matches!(crate::fuzz_api::roundtrip_verdict(t), Err((c, _)) if c == class)
                });
                let t = parse_extended_formula(&min).ok()?;
                let f = from_tree(&t);
                check_tree("fuzz", &f, &t).err()
            });
            if found.is_some() {
                return found;
            }
        }
        let by_size = small_formulas(4);
        let mut count = 0u64;
        let mut nontrivial = 0u64;
        for (n, fs) in by_size.iter().enumerate() {
            for f in fs {
                count += 1;
                let t = to_tree(f);
                if let Err(fl) = check_tree("constructors-small-scope", f, &t) {
                    return Some(fl);
                }
                if n >= 3 {
                    nontrivial += 1;
                }
            }
        }
        stats.evaluations += count;
        stats.nontrivial += nontrivial;
        stats.distinct_by_construction += nontrivial;
        stats.exhaustive = true;
        stats.stages.insert("small-scope".into(), json!({"max_nodes": 4, "trees": count}));
        None
    }
}
