//! C15 — sanitised results equal raw results and do not depend on the number of spare variable sets.

use super::common::*;
use crate::ast::*;
use crate::engine::*;
use crate::gen::FCfg;
use crate::model::{Net, PointReader};
use crate::sem::*;
use biodivine_hctl_model_checker::model_checking::*;
use biodivine_lib_param_bn::biodivine_std::traits::Set;
use biodivine_lib_param_bn::symbolic_async_graph::{GraphColoredVertices, SymbolicAsyncGraph};
use proptest::prelude::*;
use serde_json::Value;

pub struct C15;

fn check(case: &SemCase, _net0: &Net, f: &F) -> Verdict {
    if !f.is_closed() {
        return Verdict::Discard("outside-C15-domain");
    }
    let depth = f.quant_depth() as u16;
    let text = &case.formulas[0];
    let extended = f.has_wild_or_domain();
    let mut sanitised: Vec<(u16, GraphColoredVertices)> = vec![];
    let mut classes = vec![];
    let mut nontrivial = false;
    for k in [depth, depth + 1, depth + 3] {
        let mut c = case.clone();
        c.k = k;
        let net = match build_net(&c) {
            Ok(n) => n,
            Err(r) => return Verdict::Discard(r),
        };
        // optionally: the caller restricted the graph to a subset of its valid colours
        let restrict_mask = case.extra.get("restrict_colours").and_then(|m| m.as_u64());
        let restricted;
        let mut allowed: Option<Vec<bool>> = None;
        let g = match restrict_mask {
            Some(mask) if net.num_valid() >= 2 => {
                let valid = net.valid_colours();
                let mut keep: Vec<bool> = vec![false; net.num_colours()];
                for (i, c) in valid.iter().enumerate() {
                    if (mask >> (i % 64)) & 1 == 1 || i == (mask as usize % valid.len()) {
                        keep[*c as usize] = true;
                    }
                }
                let keep2 = keep.clone();
                let all = net.all_states();
                let sub = net.mk_set(&move |c| if keep2[c as usize] { all } else { 0 }, true);
                allowed = Some(keep);
                // same network and symbolic context, smaller unit set (all states x kept colours)
                restricted = net.graph.restrict(&sub);
                &restricted
            }
            _ => &net.graph,
        };
        let mut ctx_sets = case.context.clone();
        if let Some(keep) = &allowed {
            for sets in ctx_sets.values_mut() {
                for (c, s) in sets.iter_mut().enumerate() {
                    if !keep.get(c).copied().unwrap_or(false) {
                        *s = 0;
                    }
                }
            }
        }
        let sym = symbolic_context(&net, &ctx_sets);
        let (dirty, clean) = if extended {
            (
                call_ok!("C15", case, "model_check_extended_formula_dirty", model_check_extended_formula_dirty(text, g, &sym)),
                call_ok!("C15", case, "model_check_extended_formula", model_check_extended_formula(text, g, &sym)),
            )
        } else {
            (
                call_ok!("C15", case, "model_check_formula_dirty", model_check_formula_dirty(text, g)),
                call_ok!("C15", case, "model_check_formula", model_check_formula(text, g)),
            )
        };
        // canonical encoding without auxiliary variables
        let canonical = g.symbolic_context().as_canonical_context();
        let plain_graph = match SymbolicAsyncGraph::new(&net.bn) {
            Ok(g) => g,
            Err(_) => return Verdict::Discard("canonical-graph-unavailable"),
        };
        let cv = canonical.bdd_variable_set();
        let pv = plain_graph.symbolic_context().bdd_variable_set();
        let names = |s: &biodivine_lib_bdd::BddVariableSet| -> Vec<String> { s.variables().iter().map(|v| s.name_of(*v)).collect() };
        if clean.as_bdd().num_vars() != cv.num_vars() || names(cv) != names(pv) {
            return Verdict::Fail(fail(
                "C15:not-canonical-encoding",
                format!(
                    "k={k}: sanitised result lives over {} variables; canonical context {:?}; graph built directly from the network {:?}",
                    clean.as_bdd().num_vars(),
                    names(cv),
                    names(pv)
                ),
                case,
            ));
        }
        // compatible with a graph built directly from the network: set operations work and agree
        let compat = guard(|| {
            let u = plain_graph.unit_colored_vertices();
            let inter = clean.intersect(u);
            (clean.is_subset(u), inter == clean, plain_graph.pre(&clean).is_subset(u))
        });
        match compat {
            Err(p) => return Verdict::Fail(panic_fail("C15", "set operations with a graph built from the network", &p, case)),
            Ok((sub, same, pre_ok)) => {
                if !sub || !same || !pre_ok {
                    return Verdict::Fail(fail(
                        "C15:incompatible-with-plain-graph",
                        format!("k={k}: sanitised result is not a well-formed subset of the unit set of SymbolicAsyncGraph::new(network)"),
                        case,
                    ));
                }
            }
        }
        // same (state, colour) set as the raw result, point-wise
        let reader = PointReader::new(&canonical, &net.param_names);
        let mut colours = sample_colours(&net, 64);
        if let Some(keep) = &allowed {
            colours.retain(|c| keep[*c as usize]);
        }
        // colours the caller excluded must not appear in any result
        if let Some(keep) = &allowed {
            for c in net.valid_colours().into_iter().filter(|c| !keep[*c as usize]).take(16) {
                if net.slice_in(&reader, &clean, c, 0) != 0 || net.slice(&dirty, c, 0) != 0 {
                    return Verdict::Fail(fail(
                        "C15:result-outside-restricted-graph",
                        format!("k={k}: a result contains colour [{}], which is outside the unit set of the (restricted) graph", net.colour_to_string(c)),
                        case,
                    ));
                }
            }
        }
        for c in &colours {
            let a = net.slice_in(&reader, &clean, *c, 0);
            for extra in EXTRA_PATTERNS {
                let b = net.slice(&dirty, *c, extra);
                if a != b {
                    return Verdict::Fail(fail(
                        "C15:sanitised-differs-from-raw",
                        format!(
                            "k={k}, colour [{}]: sanitised slice {a:#b}, raw slice {b:#b} (extra variables {extra:#x})",
                            net.colour_to_string(*c)
                        ),
                        case,
                    ));
                }
            }
            if a != 0 && a != net.all_states() {
                nontrivial = true;
            }
        }
        if k == depth {
            classes = net_classes(&net);
            classes.push(if allowed.is_some() { "graph-restricted-to-colour-subset".into() } else { "graph-unrestricted".into() });
        }
        sanitised.push((k, clean));
    }
    for w in sanitised.windows(2) {
        if w[0].1 != w[1].1 {
            return Verdict::Fail(fail(
                "C15:depends-on-spare-variable-sets",
                format!("`{text}`: sanitised results with k={} and k={} differ", w[0].0, w[1].0),
                case,
            ));
        }
    }
    classes.extend(formula_classes(f));
    Verdict::Pass(CaseReport {
        nontrivial: nontrivial && depth >= 1,
        key: case.key(),
        classes,
        sample: case.sample(),
    })
}

impl Property for C15 {
    type Raw = (RawSem, bool, Option<u64>);
    fn id(&self) -> &'static str {
        "C15"
    }
    fn rule(&self) -> String {
        "random network (in 40 % of the cases the graph is additionally restricted by the caller to a random non-empty subset of its valid colours, as a user would do after an earlier analysis) x closed plain or extended formula x k in {depth, depth+1, depth+3}: the sanitised result lives in the canonical symbolic context (same variable names/order as SymbolicAsyncGraph::new(network)), supports set operations with that graph, equals the raw result point-wise (64 colours, 3 settings of extra variables), and is BDD-equal across all k. Non-trivial: nesting depth >= 1 and the result is neither empty nor full for some sampled colour.".into()
    }
    fn assumptions(&self) -> Vec<String> {
        vec!["same trusted base as C01".into()]
    }
    fn cases(&self, tier: Tier) -> u32 {
        tier.pick(20_000, 600_000)
    }
    fn strategy(&self, tier: Tier) -> BoxedStrategy<Self::Raw> {
        (
            raw_sem(tier.pick(3, 4), 1..=1, 5, tier.pick(16, 22)),
            any::<bool>(),
            prop::option::weighted(0.4, any::<u64>()),
        )
            .boxed()
    }
    fn check_raw(&self, raw: &Self::Raw) -> Verdict {
        let cfg = if raw.1 { FCfg::EXTENDED_WEAK } else { FCfg::PLAIN_WEAK };
        match resolve_sem(&raw.0, cfg) {
            Err(r) => Verdict::Discard(r),
            Ok((mut case, fs, net)) => {
                if let Some(mask) = raw.2 {
                    case.extra = serde_json::json!({"restrict_colours": mask});
                }
                check(&case, &net, &fs[0])
            }
        }
    }
    fn replay(&self, case: &Value) -> Verdict {
        replay_with(case, |case, net, fs| check(case, net, &fs[0]))
    }
}
