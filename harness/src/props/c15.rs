//! C15 — sanitised results equal raw results and do not depend on the number of spare variable sets.

use super::common::*;
use crate::ast::*;
use crate::engine::*;
use crate::gen::FCfg;
use crate::model::{Net, PointReader};
use crate::sem::*;
use biodivine_hctl_model_checker::model_checking::*;
use biodivine_lib_param_bn::biodivine_std::traits::Set;
use biodivine_lib_param_bn::symbolic_async_graph::{GraphColoredVertices, SymbolicAsyncGraph};
use proptest::prelude::*;
use serde_json::Value;

pub struct C15;

fn check(case: &SemCase, _net0: &Net, f: &F) -> Verdict {
    if !f.is_closed() {
        return Verdict::Discard("outside-C15-domain");
    }
    let depth = f.quant_depth() as u16;
    let text = &case.formulas[0];
    let extended = f.has_wild_or_domain();
    let mut sanitised: Vec<(u16, GraphColoredVertices)> = vec![];
    let mut classes = vec![];
    let mut nontrivial = false;
    for k in [depth, depth + 1, depth + 3] {
        let mut c = case.clone();
        c.k = k;
        let net = match build_net(&c) {
            Ok(n) => n,
            Err(r) => return Verdict::Discard(r),
        };
        // optionally: the caller restricted the graph to a subset of its valid colours
        let restrict_mask = case.extra.get("restrict_colours").and_then(|m| m.as_u64());
        let restricted;
        let mut allowed: Option<Vec<bool>> = None;
        let g = match restrict_mask {
            Some(mask) if net.num_valid() >= 2 => {
                let valid = net.valid_colours();
                let mut keep: Vec<bool> = vec![false; net.num_colours()];
                for (i, c) in valid.iter().enumerate() {
                    if (mask >> (i % 64)) & 1 == 1 || i == (mask as usize % valid.len()) {
                        keep[*c as usize] = true;
                    }
                }
                let keep2 = keep.clone();
                let all = net.all_states();
                let sub = net.mk_set(&move |c| if keep2[c as usize] { all } else { 0 }, true);
                allowed = Some(keep);
                // same network and symbolic context, smaller unit set (all states x kept colours)
                restricted = net.graph.restrict(&sub);
                &restricted
            }
            _ => &net.graph,
        };
        let mut ctx_sets = case.context.clone();
        if let Some(keep) = &allowed {
            for sets in ctx_sets.values_mut() {
                for (c, s) in sets.iter_mut().enumerate() {
                    if !keep.get(c).copied().unwrap_or(false) {
                        *s = 0;
                    }
                }
            }
        }
        let sym = symbolic_context(&net, &ctx_sets);
        let (dirty, clean) = if extended {
            (
                call_ok!("C15", case, "model_check_extended_formula_dirty", model_check_extended_formula_dirty(text, g, &sym)),
                call_ok!("C15", case, "model_check_extended_formula", model_check_extended_formula(text, g, &sym)),
            )
        } else {
            (
                call_ok!("C15", case, "model_check_formula_dirty", model_check_formula_dirty(text, g)),
                call_ok!("C15", case, "model_check_formula", model_check_formula(text, g)),
            )
        };
        // the sanitising batch entry point on [f, ~~~f, ~f] (heights small, large, medium): position i
        // is the sanitised result of formula i
        if !extended && k == depth {
            let texts = [text.clone(), format!("(~(~(~{text})))"), format!("(~{text})")];
            let refs: Vec<&str> = texts.iter().map(|t| t.as_str()).collect();
            let batch = call_ok!("C15", case, "model_check_multiple_formulae", model_check_multiple_formulae(refs, g));
            for (i, t) in texts.iter().enumerate() {
                let single = call_ok!("C15", case, "model_check_formula", model_check_formula(t, g));
                if batch.get(i) != Some(&single) {
                    return Verdict::Fail(fail(
                        "C15:sanitised-batch-position",
                        format!("k={k}: model_check_multiple_formulae on {texts:?}: position {i} is not the sanitised result of `{t}`"),
                        case,
                    ));
                }
            }
        }
        // canonical encoding without auxiliary variables
        let canonical = g.symbolic_context().as_canonical_context();
        let plain_graph = match SymbolicAsyncGraph::new(&net.bn) {
            Ok(g) => g,
            Err(_) => return Verdict::Discard("canonical-graph-unavailable"),
        };
        let cv = canonical.bdd_variable_set();
        let pv = plain_graph.symbolic_context().bdd_variable_set();
        let names = |s: &biodivine_lib_bdd::BddVariableSet| -> Vec<String> { s.variables().iter().map(|v| s.name_of(*v)).collect() };
        if clean.as_bdd().num_vars() != cv.num_vars() || names(cv) != names(pv) {
            return Verdict::Fail(fail(
                "C15:not-canonical-encoding",
                format!(
                    "k={k}: sanitised result lives over {} variables; canonical context {:?}; graph built directly from the network {:?}",
                    clean.as_bdd().num_vars(),
                    names(cv),
                    names(pv)
                ),
                case,
            ));
        }
        // compatible with a graph built directly from the network: set operations work and agree
        let compat = guard(|| {
            let u = plain_graph.unit_colored_vertices();
            let inter = clean.intersect(u);
            (clean.is_subset(u), inter == clean, plain_graph.pre(&clean).is_subset(u))
        });
        match compat {
            Err(p) => return Verdict::Fail(panic_fail("C15", "set operations with a graph built from the network", &p, case)),
            Ok((sub, same, pre_ok)) => {
                if !sub || !same || !pre_ok {
                    return Verdict::Fail(fail(
                        "C15:incompatible-with-plain-graph",
                        format!("k={k}: sanitised result is not a well-formed subset of the unit set of SymbolicAsyncGraph::new(network)"),
                        case,
                    ));
                }
            }
        }
        // same (state, colour) set as the raw result, point-wise
        let reader = PointReader::new(&canonical, &net.param_names);
        let mut colours = sample_colours(&net, 64);
        if let Some(keep) = &allowed {
            colours.retain(|c| keep[*c as usize]);
        }
        // colours the caller excluded must not appear in any result
        if let Some(keep) = &allowed {
            for c in net.valid_colours().into_iter().filter(|c| !keep[*c as usize]).take(16) {
                if net.slice_in(&reader, &clean, c, 0) != 0 || net.slice(&dirty, c, 0) != 0 {
                    return Verdict::Fail(fail(
                        "C15:result-outside-restricted-graph",
                        format!("k={k}: a result contains colour [{}], which is outside the unit set of the (restricted) graph", net.colour_to_string(c)),
                        case,
                    ));
                }
            }
        }
        for c in &colours {
            let a = net.slice_in(&reader, &clean, *c, 0);
            for extra in EXTRA_PATTERNS {
                let b = net.slice(&dirty, *c, extra);
                if a != b {
                    return Verdict::Fail(fail(
                        "C15:sanitised-differs-from-raw",
                        format!(
                            "k={k}, colour [{}]: sanitised slice {a:#b}, raw slice {b:#b} (extra variables {extra:#x})",
                            net.colour_to_string(*c)
                        ),
                        case,
                    ));
                }
            }
            if a != 0 && a != net.all_states() {
                nontrivial = true;
            }
        }
        if k == depth {
            classes = net_classes(&net);
            classes.push(if allowed.is_some() { "graph-restricted-to-colour-subset".into() } else { "graph-unrestricted".into() });
        }
        sanitised.push((k, clean));
    }
    for w in sanitised.windows(2) {
        if w[0].1 != w[1].1 {
            return Verdict::Fail(fail(
                "C15:depends-on-spare-variable-sets",
                format!("`{text}`: sanitised results with k={} and k={} differ", w[0].0, w[1].0),
                case,
            ));
        }
    }
    classes.extend(formula_classes(f));
    Verdict::Pass(CaseReport {
        nontrivial: nontrivial && depth >= 1,
        key: case.key(),
        classes,
        sample: case.sample(),
    })
}

/// The same comparison done on whole sets (no explicit model): for networks whose results are BDDs
/// of 10^4 - 10^6 nodes.  k in {depth, depth+1, depth+3}.
fn check_large(case: &crate::scale::ScaleCase) -> Verdict {
    use biodivine_hctl_model_checker::mc_utils::get_extended_symbolic_graph;
    let lfail = |class: &str, message: String| Verdict::Fail(Failure { class: class.to_string(), message, case: case.to_json() });
    let Ok(bn) = case.network() else { return Verdict::Discard("unreadable-case") };
    let Ok(f) = crate::refparse::parse(&case.formula, false) else { return Verdict::Discard("unreadable-case") };
    if !f.is_closed() || f.has_wild_or_domain() {
        return Verdict::Discard("outside-C15-domain");
    }
    let text = case.formula.as_str();
    let depth = f.quant_depth() as u16;
    let plain_graph = match SymbolicAsyncGraph::new(&bn) {
        Ok(g) => g,
        Err(_) => return Verdict::Discard("constraints-unsatisfiable"),
    };
    let mut sanitised: Vec<(u16, GraphColoredVertices)> = vec![];
    let mut max_nodes = 0;
    for k in [depth, depth + 1, depth + 3] {
        let Ok(g) = get_extended_symbolic_graph(&bn, k) else { return Verdict::Discard("constraints-unsatisfiable") };
        macro_rules! run {
            ($what:expr, $e:expr) => {
                match guard(|| $e) {
                    Err(p) => return lfail(&format!("C15:panic:{}", panic_site(&p)), format!("k={k}: {} panicked: {p}", $what)),
                    Ok(Err(e)) => return lfail(&format!("C15:unexpected-error:{}", $what), format!("k={k}: {}: Err({e})", $what)),
                    Ok(Ok(r)) => r,
                }
            };
        }
        let dirty = run!("model_check_formula_dirty", model_check_formula_dirty(text, &g));
        let clean = run!("model_check_formula", model_check_formula(text, &g));
        max_nodes = max_nodes.max(clean.as_bdd().size());
        let canonical = g.symbolic_context().as_canonical_context();
        if clean.as_bdd().num_vars() != canonical.bdd_variable_set().num_vars()
            || clean.as_bdd().num_vars() != plain_graph.symbolic_context().bdd_variable_set().num_vars()
        {
            return lfail(
                "C15:not-canonical-encoding",
                format!(
                    "k={k}: sanitised result ({} BDD nodes) is declared over {} symbolic variables, the canonical encoding has {}",
                    clean.as_bdd().size(),
                    clean.as_bdd().num_vars(),
                    canonical.bdd_variable_set().num_vars()
                ),
            );
        }
        let Some(moved) = canonical.transfer_from(dirty.as_bdd(), g.symbolic_context()) else {
            return lfail("C15:raw-result-depends-on-spare-variables", format!("k={k}: the raw result of the closed formula `{text}` cannot be expressed over state and parameter variables"));
        };
        if &moved != clean.as_bdd() {
            return lfail("C15:sanitised-differs-from-raw", format!("k={k}: `{text}`: the sanitised result is not the raw result moved to the canonical encoding ({} vs {} BDD nodes)", clean.as_bdd().size(), moved.size()));
        }
        let compat = guard(|| {
            let u = plain_graph.unit_colored_vertices();
            (clean.is_subset(u), clean.intersect(u) == clean)
        });
        match compat {
            Err(p) => return lfail(&format!("C15:panic:{}", panic_site(&p)), format!("k={k}: set operations with a graph built from the network panicked: {p}")),
            Ok((sub, same)) if !sub || !same => {
                return lfail("C15:incompatible-with-plain-graph", format!("k={k}: sanitised result is not a well-formed subset of the unit set of SymbolicAsyncGraph::new(network)"))
            }
            _ => {}
        }
        sanitised.push((k, clean));
    }
    for w in sanitised.windows(2) {
        if w[0].1 != w[1].1 {
            return lfail("C15:depends-on-spare-variable-sets", format!("`{text}`: sanitised results with k={} and k={} differ", w[0].0, w[1].0));
        }
    }
    let unit = plain_graph.mk_unit_colored_vertices();
    let nontrivial = !sanitised[0].1.is_empty() && sanitised[0].1 != unit;
    let size_class = match max_nodes {
        0..=999 => "<1e3",
        1000..=9999 => "1e3-1e4",
        10_000..=65_536 => "1e4-65536",
        _ => ">65536",
    };
    let mut classes = vec!["large-results".to_string(), format!("large-results:sanitised-bdd-nodes={size_class}")];
    classes.extend(formula_classes(&f));
    Verdict::Pass(CaseReport {
        nontrivial,
        key: case.key(),
        classes,
        sample: serde_json::json!({"network_lines": case.aeon.as_ref().map(|a| a.lines().count()), "model": case.model, "formula": text, "sanitised_bdd_nodes": max_nodes}),
    })
}

impl Property for C15 {
    type Raw = (RawSem, bool, Option<u64>);
    fn id(&self) -> &'static str {
        "C15"
    }
    fn rule(&self) -> String {
        "random network (in 40 % of the cases the graph is additionally restricted by the caller to a random non-empty subset of its valid colours, as a user would do after an earlier analysis) x closed plain or extended formula x k in {depth, depth+1, depth+3}: the sanitised result lives in the canonical symbolic context (same variable names/order as SymbolicAsyncGraph::new(network)), supports set operations with that graph, equals the raw result point-wise (64 colours, 3 settings of extra variables), and is BDD-equal across all k; for plain formulae the sanitising batch entry point on [f, ~~~f, ~f] returns at position i the sanitised result of formula i. Deterministic stage (large results): unknown functions of arity 6-8, generated 7-8-variable networks in which every update function is unknown (56-64 parameter bits) and five parametrised bundled models x fixed and generated formulae: the sanitised result is over the canonical variable set, equals the raw result moved there by SymbolicContext::transfer_from (whole-set), supports set operations with SymbolicAsyncGraph::new(network), and is BDD-equal for k in {depth, depth+1, depth+3}; result sizes are recorded (class large-results:sanitised-bdd-nodes). Non-trivial: nesting depth >= 1 and the result is neither empty nor full for some sampled colour.".into()
    }
    fn assumptions(&self) -> Vec<String> {
        vec!["same trusted base as C01".into()]
    }
    fn cases(&self, tier: Tier) -> u32 {
        tier.pick(20_000, 600_000)
    }
    fn strategy(&self, tier: Tier) -> BoxedStrategy<Self::Raw> {
        (
            raw_sem(tier.pick(3, 4), 1..=1, 5, tier.pick(16, 22)),
            any::<bool>(),
            prop::option::weighted(0.4, any::<u64>()),
        )
            .boxed()
    }
    fn check_raw(&self, raw: &Self::Raw) -> Verdict {
        let cfg = if raw.1 { FCfg::EXTENDED_WEAK } else { FCfg::PLAIN_WEAK };
        match resolve_sem(&raw.0, cfg) {
            Err(r) => Verdict::Discard(r),
            Ok((mut case, fs, net)) => {
                if let Some(mask) = raw.2 {
                    case.extra = serde_json::json!({"restrict_colours": mask});
                }
                check(&case, &net, &fs[0])
            }
        }
    }
    fn replay(&self, case: &Value) -> Verdict {
        if case.get("scale").is_some() {
            return match serde_json::from_value::<crate::scale::ScaleCase>(case.clone()) {
                Ok(c) => check_large(&c),
                Err(_) => Verdict::Discard("unreadable-case"),
            };
        }
        replay_with(case, |case, net, fs| check(case, net, &fs[0]))
    }
    fn extra_stages(&self, tier: Tier, seed: u64, stats: &mut Stats) -> Option<Failure> {
        // large results: unknown functions of arity 6-8, heavily parametrised generated networks,
        // parametrised bundled models
        use crate::scale::*;
        let mut cases: Vec<ScaleCase> = vec![];
        let mut push = |aeon: Option<String>, model: Option<String>, f: &F| {
            cases.push(ScaleCase { scale: true, aeon, model, k: f.quant_depth() as u16, formula: f.canon(), fast: true, context: Default::default() })
        };
        let fixed = ["(~t)", "(EX t)", "(AX (t & r1))", "(EX (r1 & (EX t)))", "(!{x}: (EX {x}))", "(3{x}: (@{x}: (~t)))", "(EF (~t))", "(!{x}: (AX ((~{x}) | t)))"];
        for k in tier.pick(vec![6usize, 7, 8], vec![5, 6, 7, 8]) {
            let aeon = super::c03::wide_function_aeon(k, k % 3);
            for t in fixed {
                push(Some(aeon.clone()), None, &crate::refparse::parse(t, false).expect("fixed formula"));
            }
        }
        let nets = crate::bundled::sample_stream(&(raw_mid(), prop::collection::vec(crate::gen::raw_f_weighted(3, 8, 1), 6)), mix(seed, 0xc15), tier.pick(6, 40));
        let empty_labels = std::collections::HashMap::new();
        for (net, raws) in &nets {
            let mut net = net.clone();
            net.heavy = true;
            net.n = net.n % 2; // 7 or 8 variables, every one with an unknown function of 3 regulators
            net.pad = 0;
            let aeon = resolve_mid(&net);
            let Ok(bn) = biodivine_lib_param_bn::BooleanNetwork::try_from(aeon.as_str()) else { continue };
            // pre-flight: the tool computes the steady states in every call (3 graphs x 2 entry points per
            // case) and cannot be interrupted; networks where that set alone needs > 0.3 s are left out
            let Ok(g0) = SymbolicAsyncGraph::new(&bn) else { continue };
            let probe = crate::refsym::RefSym::new(&bn, &g0, &empty_labels, true, None);
            if probe.sinks_within(std::time::Duration::from_millis(300)).is_none() {
                continue;
            }
            // one-step formulae only: reachability on these networks takes minutes
            let _ = raws;
            for t in ["(EX m0)", "(AX (m1 | m2))", "(EX (m0 & (EX m1)))", "(!{x}: (EX {x}))", "(3{x}: (@{x}: (AX m2)))", "(~(AX (m3 ^ m4)))"] {
                push(Some(aeon.clone()), None, &crate::refparse::parse(t, false).expect("fixed formula"));
            }
        }
        for model in [
            "benchmark_models/inference-benchmarks/110_9v/model_parametrized.aeon",
            "benchmark_models/inference-benchmarks/CNS_development/model.aeon",
            "benchmark_models/large-colored-models/set1-tacas/tacas2.aeon",
            "benchmark_models/large-colored-models/set1-tacas/tacas3.aeon",
            "benchmark_models/inference-benchmarks/115_35v/model_parametrized.aeon",
        ] {
            let Ok(bn) = biodivine_lib_param_bn::BooleanNetwork::try_from_file(format!("{}/{}", crate::bundled::repo_dir(), model).as_str()) else {
                harness_error(&format!("bundled model {model} not loadable"));
            };
            let raws = crate::bundled::sample_stream(&crate::gen::raw_f_weighted(3, 8, 1), mix(seed, 0xc15b), tier.pick(4, 30));
            for raw in &raws {
                push(None, Some(model.to_string()), &scale_formula(raw, &bn, FCfg::PLAIN, 0, true));
            }
        }
        let failure: std::sync::Mutex<Option<Failure>> = std::sync::Mutex::new(None);
        let reports: std::sync::Mutex<Vec<CaseReport>> = std::sync::Mutex::new(vec![]);
        let next = std::sync::atomic::AtomicUsize::new(0);
        std::thread::scope(|scope| {
            for _ in 0..16 {
                scope.spawn(|| loop {
                    let i = next.fetch_add(1, std::sync::atomic::Ordering::SeqCst);
                    if i >= cases.len() || failure.lock().unwrap().is_some() {
                        return;
                    }
                    let t_case = std::time::Instant::now();
                    if std::env::var("VERIF_TRACE_SLOW").is_ok() {
                        eprintln!("large case {i} start: {:?} lines {:?} `{}`", cases[i].model, cases[i].aeon.as_ref().map(|a| a.lines().count()), cases[i].formula);
                    }
                    let owned = cases[i].clone();
                    let verdict = match with_time_limit(std::time::Duration::from_secs(90), move || guard(|| check_large(&owned))) {
                        Some(v) => v,
                        None => Ok(Verdict::Discard("call-exceeded-its-time-limit")),
                    };
                    if std::env::var("VERIF_TRACE_SLOW").is_ok() {
                        eprintln!("large case {i} done in {:?}", t_case.elapsed());
                    }
                    match verdict {
                        Ok(Verdict::Fail(fl)) => {
                            let fl = shrink_scale_with(fl, &check_large);
                            failure.lock().unwrap().get_or_insert(fl);
                            return;
                        }
                        Ok(Verdict::Pass(rep)) => reports.lock().unwrap().push(rep),
                        Ok(Verdict::Discard(_)) => {}
                        Err(p) => harness_error(&format!("panic in the harness in the large-results stage: {p}")),
                    }
                });
            }
        });
        let reports = reports.into_inner().unwrap();
        stats.stages.insert("large-results".into(), serde_json::json!({"cases_built": cases.len(), "cases": reports.len(), "nontrivial": reports.iter().filter(|r| r.nontrivial).count()}));
        for r in reports {
            stats.add(r);
        }
        failure.into_inner().unwrap()
    }
}
