//! C16 — result archives reload to the sets that were written.
//! Round-trip oracle: build_result_archive -> load_bdd_bundle with a graph rebuilt from the archived
//! model and the same number of spare variable sets; analyse_formulae's own archive vs the library
//! results; reloaded sets used as wild-card context vs the in-memory sets.

use super::common::*;
use crate::ast::*;
use crate::engine::*;
use crate::gen::{self, classify_set, FCfg, SetClass};
use crate::model::Net;
use crate::sem::*;
use biodivine_hctl_model_checker::analysis::analyse_formulae;
use biodivine_hctl_model_checker::evaluation::LabelToSetMap;
use biodivine_hctl_model_checker::generate_output::build_result_archive;
use biodivine_hctl_model_checker::load_inputs::load_bdd_bundle;
use biodivine_hctl_model_checker::mc_utils::get_extended_symbolic_graph;
use biodivine_hctl_model_checker::model_checking::*;
use biodivine_hctl_model_checker::result_print::PrintOptions;
use biodivine_lib_param_bn::symbolic_async_graph::SymbolicContext;
use biodivine_lib_param_bn::BooleanNetwork;
use proptest::prelude::*;
use serde_json::{json, Value};
use std::collections::{BTreeMap, BTreeSet};
use std::io::Read;

pub struct C16;

pub const ARCHIVE_LABELS: [&str; 8] = ["formula-0", "formula-1", "_dom", "x_1", "3", "EX", "formula-10", "__"];

pub fn read_zip(path: &str) -> Result<BTreeMap<String, String>, String> {
    let file = std::fs::File::open(path).map_err(|e| e.to_string())?;
    let mut zip = zip::ZipArchive::new(file).map_err(|e| e.to_string())?;
    let mut out = BTreeMap::new();
    for i in 0..zip.len() {
        let mut f = zip.by_index(i).map_err(|e| e.to_string())?;
        let mut s = String::new();
        f.read_to_string(&mut s).map_err(|e| e.to_string())?;
        if out.insert(f.name().to_string(), s).is_some() {
            return Err(format!("entry {} occurs twice", f.name()));
        }
    }
    Ok(out)
}

pub fn context_names(ctx: &SymbolicContext) -> Vec<String> {
    let set = ctx.bdd_variable_set();
    set.variables().iter().map(|v| set.name_of(*v)).collect()
}

/// Re-encode the network in another supported format and read it back (the "any supported input
/// format" part of the quantifier).  Only possible for networks the format can express.
fn via_format(bn: &BooleanNetwork, format: u8) -> Option<(BooleanNetwork, &'static str)> {
    match format % 3 {
        1 => {
            let text = bn.to_bnet(false).ok()?;
            BooleanNetwork::try_from_bnet(&text).ok().map(|b| (b, "bnet"))
        }
        2 => {
            let text = bn.to_sbml(None);
            BooleanNetwork::try_from_sbml(&text).ok().map(|(b, _)| (b, "sbml"))
        }
        _ => None,
    }
}

fn check(case: &SemCase, net0: &Net, fs: &[F]) -> Verdict {
    let format = case.extra.get("format").and_then(|f| f.as_u64()).unwrap_or(0) as u8;
    // the network, possibly taken through bnet / sbml first
    let (bn, source) = match via_format(&net0.bn, format) {
        Some((b, s)) => (b, s),
        None => (net0.bn.clone(), "aeon"),
    };
    let net = match Net::from_bn(bn, case.aeon.clone(), case.k) {
        Ok(n) => n,
        Err(_) => return Verdict::Discard("reformatted-network-not-usable"),
    };
    if net.var_names != net0.var_names || net.p != net0.p {
        // another format may order / encode things differently: the case's explicit sets would not fit
        return Verdict::Discard("reformatted-network-differs");
    }
    let g = &net.graph;
    let dir = tempfile::tempdir().expect("tempdir");
    let zip_path = dir.path().join("nested/dir/results.zip").to_string_lossy().to_string();
    macro_rules! bad {
        ($class:expr, $($arg:tt)*) => {
            return Verdict::Fail(fail($class, format!($($arg)*), case))
        };
    }

    // ---- part 1: explicit label -> set map
    let mut results: LabelToSetMap = symbolic_context(&net, &case.context);
    // add raw results of the formulae under formula-<i> labels (raw sets, with extra variables)
    let texts: Vec<String> = case.formulas.clone();
    let plain: Vec<&String> = texts.iter().zip(fs).filter(|(_, f)| !f.has_wild_or_domain()).map(|(t, _)| t).collect();
    for (i, t) in plain.iter().enumerate() {
        let r = call_ok!("C16", case, "model_check_formula_dirty", model_check_formula_dirty(t, g));
        results.insert(format!("formula-{}", i + 20), r);
    }
    let model_text = net.bn.to_string();
    // history: the target path may already hold an older archive with other labels / formulae
    let overwrite = case.extra.get("overwrite").and_then(|o| o.as_bool()).unwrap_or(true);
    if overwrite {
        let mut older: LabelToSetMap = results.clone();
        older.insert("stale_label".into(), g.mk_unit_colored_vertices());
        older.insert("formula-0".into(), g.mk_empty_colored_vertices());
        let mut older_formulae = texts.clone();
        older_formulae.push("true".into());
        if let Ok(Err(e)) = guard(|| build_result_archive(older, &zip_path, &model_text, older_formulae)) {
            bad!("C16:archive-not-written", "build_result_archive (older archive at the same path): {e}");
        }
    }
    match guard(|| build_result_archive(results.clone(), &zip_path, &model_text, texts.clone())) {
        Err(p) => return Verdict::Fail(panic_fail("C16", "build_result_archive", &p, case)),
        Ok(Err(e)) => bad!("C16:archive-not-written", "build_result_archive: {e}"),
        Ok(Ok(())) => {}
    }
    let entries = match read_zip(&zip_path) {
        Ok(e) => e,
        Err(e) => bad!("C16:archive-unreadable", "written archive cannot be read as zip: {e}"),
    };
    let expected_entries: BTreeSet<String> = results
        .keys()
        .map(|k| format!("{k}.bdd"))
        .chain(["model.aeon".to_string(), "formulae.txt".to_string()])
        .collect();
    let got_entries: BTreeSet<String> = entries.keys().cloned().collect();
    if expected_entries != got_entries {
        bad!("C16:archive-entries", "entries {got_entries:?}, expected one per result plus model and formula list: {expected_entries:?}");
    }
    let lines: Vec<&str> = entries["formulae.txt"].lines().collect();
    if lines != texts.iter().map(|s| s.as_str()).collect::<Vec<_>>() {
        bad!("C16:formula-list", "formulae.txt holds {lines:?}, written {texts:?}");
    }
    // graph rebuilt from the archived model, same k
    let bn2 = match BooleanNetwork::try_from(entries["model.aeon"].as_str()) {
        Ok(b) => b,
        Err(e) => bad!("C16:archived-model-unreadable", "model.aeon does not parse: {e}"),
    };
    let g2 = match get_extended_symbolic_graph(&bn2, case.k) {
        Ok(g) => g,
        Err(e) => bad!("C16:archived-model-unusable", "no graph for the archived model: {e}"),
    };
    if context_names(g2.symbolic_context()) != context_names(g.symbolic_context()) {
        bad!(
            "C16:archived-model-other-encoding",
            "symbolic variables of the graph rebuilt from model.aeon {:?} differ from the original {:?}",
            context_names(g2.symbolic_context()),
            context_names(g.symbolic_context())
        );
    }
    let loaded = match guard(|| load_bdd_bundle(&zip_path, g2.symbolic_context())) {
        Err(p) => return Verdict::Fail(panic_fail("C16", "load_bdd_bundle", &p, case)),
        Ok(Err(e)) => bad!("C16:archive-not-loaded", "load_bdd_bundle: {e}"),
        Ok(Ok(m)) => m,
    };
    let a: BTreeSet<&String> = loaded.keys().collect();
    let b: BTreeSet<&String> = results.keys().collect();
    if a != b {
        bad!("C16:labels-differ", "labels after reload {a:?}, written {b:?}");
    }
    for (label, set) in &results {
        if loaded[label].as_bdd() != set.as_bdd() {
            bad!("C16:set-differs-after-reload", "the set under label `{label}` differs after reload");
        }
    }
    // reloaded sets as wild-card context have the same effect as the in-memory sets
    let mut used_as_context = false;
    for (i, f) in fs.iter().enumerate() {
        if f.has_wild_or_domain() {
            let mem = symbolic_context(&net, &case.context);
            let a = call_ok!("C16", case, "model_check_extended_formula_dirty", model_check_extended_formula_dirty(&texts[i], g, &mem));
            let b = call_ok!("C16", case, "model_check_extended_formula_dirty", model_check_extended_formula_dirty(&texts[i], &g2, &loaded));
            if a.as_bdd() != b.as_bdd() {
                bad!("C16:reloaded-context-differs", "`{}`: result with reloaded context sets differs from the result with in-memory sets", texts[i]);
            }
            used_as_context = true;
        }
    }

    // ---- part 2: the archive written by analyse_formulae (plain formulae only, no context)
    let mut analysed = false;
    if !plain.is_empty() {
        let zip2 = dir.path().join("analysis.zip").to_string_lossy().to_string();
        let list: Vec<String> = plain.iter().map(|s| s.to_string()).collect();
        if overwrite {
            // an earlier analysis with more formulae wrote to the same path
            let mut longer = list.clone();
            longer.push("true".into());
            longer.push("false".into());
            let _ = guard(|| analyse_formulae(&net.bn, longer, PrintOptions::NoPrint, Some(zip2.clone()), None));
        }
        match guard(|| analyse_formulae(&net.bn, list.clone(), PrintOptions::NoPrint, Some(zip2.clone()), None)) {
            Err(p) => return Verdict::Fail(panic_fail("C16", "analyse_formulae", &p, case)),
            Ok(Err(e)) => bad!("C16:analysis-error", "analyse_formulae: {e}"),
            Ok(Ok(())) => {}
        }
        let entries = match read_zip(&zip2) {
            Ok(e) => e,
            Err(e) => bad!("C16:archive-unreadable", "analysis archive: {e}"),
        };
        let depth = plain
            .iter()
            .map(|t| crate::refparse::parse(t, false).map(|f| f.quant_depth()).unwrap_or(0))
            .max()
            .unwrap_or(0) as u16;
        let bn3 = match BooleanNetwork::try_from(entries.get("model.aeon").map(|s| s.as_str()).unwrap_or("")) {
            Ok(b) => b,
            Err(e) => bad!("C16:archived-model-unreadable", "analysis archive model.aeon: {e}"),
        };
        let g3 = match get_extended_symbolic_graph(&bn3, depth) {
            Ok(g) => g,
            Err(e) => bad!("C16:archived-model-unusable", "analysis archive: {e}"),
        };
        let loaded = match guard(|| load_bdd_bundle(&zip2, g3.symbolic_context())) {
            Ok(Ok(m)) => m,
            other => bad!("C16:archive-not-loaded", "analysis archive: {:?}", other.map(|r| r.map(|m| m.len()))),
        };
        let lines: Vec<String> = entries.get("formulae.txt").map(|s| s.lines().map(|l| l.to_string()).collect()).unwrap_or_default();
        if lines != list {
            bad!("C16:formula-list", "analysis archive formulae.txt {lines:?}, analysed {list:?}");
        }
        if loaded.len() != list.len() {
            bad!("C16:archive-entries", "analysis archive has {} sets for {} formulae", loaded.len(), list.len());
        }
        let refs: Vec<&str> = list.iter().map(|s| s.as_str()).collect();
        let lib = call_ok!("C16", case, "model_check_multiple_formulae_dirty", model_check_multiple_formulae_dirty(refs, &g3));
        for (i, r) in lib.iter().enumerate() {
            match loaded.get(&format!("formula-{i}")) {
                Some(s) if s.as_bdd() == r.as_bdd() => {}
                Some(_) => bad!("C16:entry-i-is-not-line-i", "analysis archive: formula-{i} is not the library result of line {i} `{}`", list[i]),
                None => bad!("C16:archive-entries", "analysis archive lacks formula-{i}"),
            }
        }
        analysed = true;
    }

    let nontrivial_sets = case
        .context
        .values()
        .filter(|s| !matches!(classify_set(s, &net), SetClass::Empty | SetClass::Full))
        .count();
    let distinct_sets: BTreeSet<&Vec<u64>> = case.context.values().collect();
    let mut classes = net_classes(&net);
    classes.push(format!("source:{source}"));
    classes.push(format!("labels={}", results.len().min(6)));
    if used_as_context {
        classes.push("reloaded-as-context".into());
    }
    if analysed {
        classes.push("analysis-archive".into());
    }
    classes.push(if overwrite { "path-held-older-archive".into() } else { "fresh-path".into() });
    Verdict::Pass(CaseReport {
        nontrivial: results.len() >= 2 && nontrivial_sets >= 1 && distinct_sets.len() >= 2,
        key: case.key(),
        classes,
        sample: case.sample(),
    })
}

impl Property for C16 {
    type Raw = (RawSem, u8, u8);
    fn id(&self) -> &'static str {
        "C16"
    }
    fn rule(&self) -> String {
        "random network (as aeon; fully specified ones also taken through bnet / sbml text first) x label -> set map (labels: name words incl. `formula-<i>`, digits, operator-like; sets: empty / full / random coloured sets, and raw results of generated formulae) x formula list: build_result_archive (in half of the cases the target path already holds an older archive with other labels and a longer formula list) -> zip entries are exactly one per result + model + formula list -> graph rebuilt from the archived model with the same k has identical symbolic variables -> load_bdd_bundle returns the same labels with BDD-equal sets -> extended formulae evaluate identically with reloaded and in-memory context sets; analyse_formulae's own archive: entry formula-<i> == library result of line i. Deterministic stage: archives holding a set with a BDD dump of several MiB (2^17 nodes; thorough: 2^12..2^18). Non-trivial: >= 2 labels, >= 2 different sets, one of them neither empty nor full.".into()
    }
    fn assumptions(&self) -> Vec<String> {
        vec!["temporary files are written below the system temp directory and removed after each case".into()]
    }
    fn cases(&self, tier: Tier) -> u32 {
        tier.pick(6_000, 200_000)
    }
    fn strategy(&self, tier: Tier) -> BoxedStrategy<Self::Raw> {
        (raw_sem(tier.pick(3, 4), 1..=3, 4, 12), any::<u8>(), any::<u8>()).boxed()
    }
    fn check_raw(&self, raw: &Self::Raw) -> Verdict {
        match resolve_sem(&raw.0, FCfg::EXTENDED_WEAK) {
            Err(r) => Verdict::Discard(r),
            Ok((mut case, fs, net)) => {
                // extra labelled sets beyond those the formulae mention
                for (i, l) in ARCHIVE_LABELS.iter().enumerate() {
                    if raw.1 & (1 << i) != 0 {
                        case.context
                            .insert(l.to_string(), gen::resolve_set(&raw.0.sets[i % raw.0.sets.len()], &net));
                    }
                }
                case.extra = json!({"format": raw.2, "overwrite": raw.1 & 128 == 0});
                check(&case, &net, &fs)
            }
        }
    }
    fn replay(&self, case: &Value) -> Verdict {
        if case.get("big_pairs").is_some() {
            return match big_entry_case(case["big_pairs"].as_u64().unwrap_or(17) as usize) {
                Ok(rep) => Verdict::Pass(rep),
                Err(f) => Verdict::Fail(f),
            };
        }
        replay_with(case, check)
    }
    fn extra_stages(&self, tier: Tier, _seed: u64, stats: &mut Stats) -> Option<Failure> {
        // "arbitrary sets" includes big ones: sets whose BDD dump is several MiB
        for pairs in tier.pick(vec![17usize], vec![12, 16, 17, 18]) {
            match big_entry_case(pairs) {
                Ok(rep) => stats.add(rep),
                Err(f) => return Some(f),
            }
        }
        stats.stages.insert("large-entries".into(), json!({"pairs": tier.pick(vec![17], vec![12, 16, 17, 18])}));
        None
    }
}

/// Round trip of an archive holding a set whose BDD has about 2^pairs nodes: the disjunction of
/// `v_i & v_(i+pairs)` over a network of 2*pairs frozen variables (the alphabetical variable order
/// is the worst one for this function), next to a small set and the empty set.
fn big_entry_case(pairs: usize) -> Result<CaseReport, Failure> {
    use biodivine_lib_param_bn::biodivine_std::traits::Set;
    let n = 2 * pairs;
    let name = |i: usize| format!("v{i:02}");
    let aeon: String = (0..n).map(|i| format!("{0} -> {0}\n${0}: {0}\n", name(i))).collect();
    let case_json = json!({"big_pairs": pairs});
    let fail = |class: &str, msg: String| Failure {
        class: class.to_string(),
        message: msg,
        case: case_json.clone(),
    };
    let bn = BooleanNetwork::try_from(aeon.as_str()).map_err(|e| fail("C16:harness", e))?;
    let g = get_extended_symbolic_graph(&bn, 1).map_err(|e| fail("C16:harness", e))?;
    let vars: Vec<_> = bn.variables().collect();
    let mut big = g.mk_empty_colored_vertices();
    for i in 0..pairs {
        let cube = g
            .unit_colored_vertices()
            .fix_network_variable(vars[i], true)
            .fix_network_variable(vars[i + pairs], true);
        big = big.union(&cube);
    }
    let small = g.unit_colored_vertices().fix_network_variable(vars[0], false);
    let mut results: LabelToSetMap = LabelToSetMap::new();
    results.insert("big".into(), big.clone());
    results.insert("small".into(), small);
    results.insert("none".into(), g.mk_empty_colored_vertices());
    let dir = tempfile::tempdir().expect("tempdir");
    let zip_path = dir.path().join("big.zip").to_string_lossy().to_string();
    let formulae = vec!["%big% & v00".to_string()];
    match guard(|| build_result_archive(results.clone(), &zip_path, &bn.to_string(), formulae.clone())) {
        Ok(Ok(())) => {}
        other => return Err(fail("C16:archive-not-written", format!("large archive: {:?}", other.map(|r| r.map_err(|e| e.to_string()))))),
    }
    let entries = read_zip(&zip_path).map_err(|e| fail("C16:archive-unreadable", e))?;
    let dump_len = entries.get("big.bdd").map(|s| s.len()).unwrap_or(0);
    let bn2 = BooleanNetwork::try_from(entries.get("model.aeon").map(|s| s.as_str()).unwrap_or(""))
        .map_err(|e| fail("C16:archived-model-unreadable", e))?;
    let g2 = get_extended_symbolic_graph(&bn2, 1).map_err(|e| fail("C16:archived-model-unusable", e))?;
    let loaded = match guard(|| load_bdd_bundle(&zip_path, g2.symbolic_context())) {
        Ok(Ok(m)) => m,
        Ok(Err(e)) => return Err(fail("C16:archive-not-loaded", format!("archive with a {dump_len}-byte entry written by the library itself: {e}"))),
        Err(p) => return Err(fail(&format!("C16:panic:{}", panic_site(&p)), p)),
    };
    for (label, set) in &results {
        match loaded.get(label) {
            Some(s) if s.as_bdd() == set.as_bdd() => {}
            Some(s) => {
                return Err(fail(
                    "C16:set-differs-after-reload",
                    format!(
                        "label `{label}` ({} BDD nodes, dump of {dump_len} bytes for `big`): {} elements written, {} after reload",
                        set.as_bdd().size(),
                        set.approx_cardinality(),
                        s.approx_cardinality()
                    ),
                ))
            }
            None => return Err(fail("C16:labels-differ", format!("label `{label}` missing after reload"))),
        }
    }
    let a = guard(|| model_check_extended_formula_dirty(&formulae[0], &g, &results));
    let b = guard(|| model_check_extended_formula_dirty(&formulae[0], &g2, &loaded));
    match (a, b) {
        (Ok(Ok(x)), Ok(Ok(y))) if x.as_bdd() == y.as_bdd() => {}
        _ => return Err(fail("C16:reloaded-context-differs", "large set used as wild-card context: reloaded and in-memory results differ".into())),
    }
    Ok(CaseReport {
        nontrivial: true,
        key: hash_of(&("big", pairs)),
        classes: vec![format!("large-entry:{}MiB", dump_len >> 20)],
        sample: json!({"network": format!("{n} frozen variables"), "set": format!("disjunction of {pairs} pairs v_i & v_(i+{pairs})"), "bdd_nodes": big.as_bdd().size(), "dump_bytes": dump_len}),
    })
}
