//! C08 — results are invariant under meaning-preserving rewrites of the formula text: consistent
//! renaming of state variables (incl. the internal names in another order), extra whitespace,
//! redundant parentheses, long vs short hybrid spellings, alternative constant spellings.
//! Metamorphic oracle: BDD equality of the results on both texts.

use super::common::*;
use crate::ast::*;
use crate::engine::*;
use crate::gen::{self, FCfg};
use crate::model::Net;
use crate::refparse;
use crate::render::{render, Choices, Style};
use crate::sem::*;
use biodivine_hctl_model_checker::model_checking::*;
use proptest::prelude::*;
use serde_json::{json, Value};

pub struct C08;

pub const RENAME_POOL: [&str; 10] = ["xx", "x", "xxx", "y", "z", "q_1", "xxxx", "var0", "X", "EX"];

/// Consistent (injective) renaming of all state variables.
pub fn rename_vars(f: &F, shift: usize) -> F {
    let mut names: Vec<String> = vec![];
    f.visit(&mut |g| {
        if let F::Hyb(op, v, _, _) = g {
            if op.is_quantifier() && !names.contains(v) {
                names.push(v.clone());
            }
        }
    });
    let map: Vec<(String, String)> = names
        .iter()
        .enumerate()
        .map(|(i, n)| (n.clone(), RENAME_POOL[(i + shift) % RENAME_POOL.len()].to_string()))
        .collect();
    fn rec(f: &F, map: &[(String, String)]) -> F {
        let look = |v: &String| map.iter().find(|(a, _)| a == v).map(|(_, b)| b.clone()).unwrap_or(v.clone());
        match f {
            F::Var(v) => F::Var(look(v)),
            F::Un(op, a) => F::Un(*op, Box::new(rec(a, map))),
            F::Bin(op, a, b) => F::Bin(*op, Box::new(rec(a, map)), Box::new(rec(b, map))),
            F::Hyb(op, v, d, a) => F::Hyb(*op, look(v), d.clone(), Box::new(rec(a, map))),
            other => other.clone(),
        }
    }
    rec(f, &map)
}

fn check(case: &SemCase, net: &Net) -> Verdict {
    // formulas[0] = canonical text, formulas[1..] = rewritten texts (classes in extra.kinds)
    let g = &net.graph;
    let sym = symbolic_context(net, &case.context);
    let base = &case.formulas[0];
    let f = match refparse::parse(base, true) {
        Ok(f) => f,
        Err(_) => return Verdict::Discard("unreadable-case"),
    };
    let plain = !f.has_wild_or_domain();
    let base_ext = call_ok!("C08", case, "model_check_extended_formula", model_check_extended_formula(base, g, &sym));
    let base_ext_d = call_ok!("C08", case, "model_check_extended_formula_dirty", model_check_extended_formula_dirty(base, g, &sym));
    let base_plain = if plain {
        Some(call_ok!("C08", case, "model_check_formula", model_check_formula(base, g)))
    } else {
        None
    };
    let kinds: Vec<String> = case
        .extra
        .get("kinds")
        .and_then(|k| k.as_array())
        .map(|a| a.iter().filter_map(|x| x.as_str().map(|s| s.to_string())).collect())
        .unwrap_or_default();
    let mut nontrivial = false;
    let mut classes = net_classes(net);
    for (i, text) in case.formulas.iter().enumerate().skip(1) {
        let kind = kinds.get(i - 1).cloned().unwrap_or_else(|| "rewrite".into());
        let r = call_ok!("C08", case, "model_check_extended_formula", model_check_extended_formula(text, g, &sym));
        let rd = call_ok!("C08", case, "model_check_extended_formula_dirty", model_check_extended_formula_dirty(text, g, &sym));
        if r != base_ext || rd != base_ext_d {
            return Verdict::Fail(fail(
                &format!("C08:rewrite-changes-result:{kind}"),
                format!("`{base}` and its {kind} rewrite `{text}` evaluate to different sets (extended entry points)"),
                case,
            ));
        }
        if let Some(bp) = &base_plain {
            let r = call_ok!("C08", case, "model_check_formula", model_check_formula(text, g));
            if &r != bp {
                return Verdict::Fail(fail(
                    &format!("C08:rewrite-changes-result-plain:{kind}"),
                    format!("`{base}` and its {kind} rewrite `{text}` evaluate to different sets (plain entry point)"),
                    case,
                ));
            }
        }
        if text != base {
            classes.push(format!("rewrite:{kind}"));
            if (kind.contains("renaming") && f.has_hybrid()) || (!kind.contains("renaming") && f.has_temporal()) {
                nontrivial = true;
            }
        }
    }
    Verdict::Pass(CaseReport {
        nontrivial,
        key: case.key(),
        classes,
        sample: case.sample(),
    })
}

impl Property for C08 {
    type Raw = (RawSem, bool, Vec<u16>, u8);
    fn id(&self) -> &'static str {
        "C08"
    }
    fn rule(&self) -> String {
        "random network x closed plain or extended formula x rewrites of its text: consistent injective renaming of all state variables (pool contains x/xx/xxx in another order and names that look like operators), whitespace noise between tokens and inside hybrid headers (blanks, tabs, newlines, U+00A0, U+3000), redundant parentheses, long hybrid spellings, alternative constant spellings, and all of them combined. Oracle: BDD equality of raw and sanitised results (extended entry points; plain entry point for plain formulae). Non-trivial: the rewritten text differs and the formula has a hybrid variable (renaming) or a temporal operator (others).".into()
    }
    fn assumptions(&self) -> Vec<String> {
        vec![
            "whitespace is inserted only between tokens and between the parts of a hybrid header; parentheses only around complete sub-formulae; renamings are injective (so no variable is re-quantified)".into(),
            "every rewritten text is checked to read back to the intended tree with the reference parser (harness self-check)".into(),
        ]
    }
    fn cases(&self, tier: Tier) -> u32 {
        tier.pick(25_000, 800_000)
    }
    fn strategy(&self, tier: Tier) -> BoxedStrategy<Self::Raw> {
        (
            raw_sem(tier.pick(3, 4), 1..=1, 5, tier.pick(16, 22)),
            any::<bool>(),
            prop::collection::vec(any::<u16>(), 4..32),
            any::<u8>(),
        )
            .boxed()
    }
    fn check_raw(&self, raw: &Self::Raw) -> Verdict {
        let cfg = if raw.1 { FCfg::EXTENDED_WEAK } else { FCfg::PLAIN_WEAK };
        match resolve_sem(&raw.0, cfg) {
            Err(r) => Verdict::Discard(r),
            Ok((mut case, fs, net)) => {
                let f = &fs[0];
                let mut ch = Choices::new(raw.2.clone());
                let renamed = rename_vars(f, 1 + (raw.3 as usize % 7));
                let styles: [(&str, Style); 5] = [
                    ("whitespace", Style { whitespace: true, ..Style::default() }),
                    ("redundant-parentheses", Style { redundant_parens: 3, ..Style::default() }),
                    ("long-spellings", Style { long_names: true, ..Style::default() }),
                    ("constant-spellings", Style { constant_spellings: true, ..Style::default() }),
                    ("minimal-parentheses", Style::default()),
                ];
                let mut texts = vec![f.canon()];
                let mut kinds = vec![];
                texts.push(renamed.canon());
                kinds.push("renaming".to_string());
                for (name, st) in styles {
                    texts.push(render(f, st, &mut ch));
                    kinds.push(name.to_string());
                }
                let combined = Style {
                    whitespace: true,
                    redundant_parens: 4,
                    long_names: true,
                    constant_spellings: true,
                    full_parens: false,
                };
                texts.push(render(&renamed, combined, &mut ch));
                kinds.push("renaming+all-combined".to_string());
                // self-check: every rewrite reads back to the intended tree
                for (i, t) in texts.iter().enumerate() {
                    let want = if i == 1 || i == texts.len() - 1 { &renamed } else { f };
                    match refparse::parse(t, true) {
                        Ok(g) if &g == want => {}
                        other => harness_error(&format!("rewrite self-check failed: `{t}` reads as {other:?}, expected `{}`", want.canon())),
                    }
                }
                let _ = gen::idx;
                case.formulas = texts;
                case.extra = json!({"kinds": kinds});
                check(&case, &net)
            }
        }
    }
    fn replay(&self, case: &Value) -> Verdict {
        let case = match SemCase::from_json(case) {
            Ok(c) => c,
            Err(_) => return Verdict::Discard("unreadable-case"),
        };
        let net = match build_net(&case) {
            Ok(n) => n,
            Err(r) => return Verdict::Discard(r),
        };
        let mut case = case;
        case.context = normalise_context(&net, &case.context);
        check(&case, &net)
    }
}
