//! C09 — canonical forms identify exactly the sub-formulae equal up to renaming.
//! Oracle: structural alpha-equivalence with a bijection on free variables (no canonical strings);
//! duplicates are re-counted independently over all sub-tree occurrences.  Needs the `verif_hooks`
//! re-export of the crate-private canonisation functions.

use crate::alpha::alpha_eq;
use crate::ast::*;
use crate::engine::*;
use crate::gen::{self, FCfg, FEnv, RawF};
use crate::props::c06::PLACEHOLDER_CTX;
use crate::refparse;
use biodivine_hctl_model_checker::evaluation::mark_duplicates::{
    mark_duplicates_canonized_multiple, mark_duplicates_canonized_single,
};
use biodivine_hctl_model_checker::evaluation::verif_hooks::{get_canonical, get_canonical_and_renaming};
use biodivine_hctl_model_checker::preprocessing::hctl_tree::HctlTreeNode;
use biodivine_hctl_model_checker::preprocessing::utils::validate_props_and_rename_vars;
use proptest::prelude::*;
use serde_json::{json, Value};
use std::collections::{BTreeMap, HashMap};

pub struct C09;

fn cfail(class: &str, fs: &[F], message: String) -> Failure {
    Failure {
        class: class.to_string(),
        message,
        case: json!({"formulas": fs}),
    }
}

/// A sub-tree occurrence together with the domains of the enclosing quantified variables.
struct Occ {
    f: F,
    env: Vec<(String, Option<String>)>,
}

fn occurrences(f: &F, env: &mut Vec<(String, Option<String>)>, out: &mut Vec<Occ>) {
    out.push(Occ {
        f: f.clone(),
        env: env.clone(),
    });
    match f {
        F::Hyb(op, v, d, a) if op.is_quantifier() => {
            env.push((v.clone(), d.clone()));
            occurrences(a, env, out);
            env.pop();
        }
        _ => {
            for c in f.children() {
                occurrences(c, env, out);
            }
        }
    }
}

fn count_matches(occs: &[Occ], key_f: &F, key_domains: &BTreeMap<String, Option<String>>) -> usize {
    occs.iter()
        .filter(|o| match alpha_eq(&o.f, key_f) {
            None => false,
            Some(bij) => {
                bij.len() == key_domains.len()
                    && bij.iter().all(|(v, c)| {
                        let dom = o.env.iter().rev().find(|(n, _)| n == v).map(|(_, d)| d.clone());
                        match (dom, key_domains.get(c)) {
                            (Some(d), Some(kd)) => d == *kd,
                            _ => false,
                        }
                    })
            }
        })
        .count()
}

pub fn check_batch(fs: &[F]) -> Verdict {
    // preprocess
    let mut trees: Vec<HctlTreeNode> = vec![];
    for f in fs {
        let t = to_tree(f);
        match PLACEHOLDER_CTX.with(|ctx| guard(|| validate_props_and_rename_vars(t, ctx))) {
            Ok(Ok(t)) => trees.push(t),
            Ok(Err(_)) => return Verdict::Discard("not-accepted-by-preprocessing"),
            Err(p) => return Verdict::Fail(cfail(&format!("C09:panic:{}", panic_site(&p)), fs, p)),
        }
    }
    let pre: Vec<F> = trees.iter().map(from_tree).collect();
    let mut occs: Vec<Occ> = vec![];
    for f in &pre {
        occurrences(f, &mut vec![], &mut occs);
    }
    // canonical forms of (a bounded number of) distinct sub-formulae
    let mut subs: Vec<&F> = vec![];
    for o in &occs {
        if !subs.contains(&&o.f) && subs.len() < 40 {
            subs.push(&o.f);
        }
    }
    let mut canon: Vec<String> = vec![];
    let mut nontrivial = false;
    for a in &subs {
        let text = a.canon();
        let (c, ren) = match guard(|| get_canonical_and_renaming(text.clone())) {
            Ok(r) => r,
            Err(p) => return Verdict::Fail(cfail(&format!("C09:panic:{}", panic_site(&p)), fs, p)),
        };
        if guard(|| get_canonical(text.clone())).ok().as_ref() != Some(&c) {
            return Verdict::Fail(cfail("C09:two-entry-points-differ", fs, format!("get_canonical and get_canonical_and_renaming differ on `{text}`")));
        }
        // idempotence
        let cc = guard(|| get_canonical(c.clone())).unwrap_or_default();
        if cc != c {
            return Verdict::Fail(cfail(
                "C09:not-idempotent",
                fs,
                format!("canonical form `{c}` of `{text}` is canonised again to `{cc}`"),
            ));
        }
        // the canonical form is a renaming of the sub-formula, and the returned map describes it on
        // the free variables (injectively)
        let cf = match refparse::parse(&c, true) {
            Ok(f) => f,
            Err(e) => {
                return Verdict::Fail(cfail(
                    "C09:canonical-form-unreadable",
                    fs,
                    format!("canonical form `{c}` of `{text}` is not a formula: {e:?}"),
                ))
            }
        };
        match alpha_eq(a, &cf) {
            None => {
                return Verdict::Fail(cfail(
                    "C09:canonical-form-not-a-renaming",
                    fs,
                    format!("canonical form `{c}` is not equal to `{text}` up to renaming"),
                ))
            }
            Some(bij) => {
                for (v, cv) in &bij {
                    if ren.get(v) != Some(cv) {
                        return Verdict::Fail(cfail(
                            "C09:renaming-map",
                            fs,
                            format!("`{text}` -> `{c}`: free variable {v} occurs as {cv} but the returned renaming says {:?}", ren.get(v)),
                        ));
                    }
                }
            }
        }
        canon.push(c);
    }
    // same canonical form <=> alpha-equivalent
    for i in 0..subs.len() {
        for j in (i + 1)..subs.len() {
            let eq = alpha_eq(subs[i], subs[j]).is_some();
            if eq != (canon[i] == canon[j]) {
                return Verdict::Fail(cfail(
                    if eq { "C09:equivalent-but-different-canonical-forms" } else { "C09:same-canonical-form-but-not-equivalent" },
                    fs,
                    format!(
                        "`{}` -> `{}` and `{}` -> `{}`; equal up to renaming: {eq}",
                        subs[i].canon(),
                        canon[i],
                        subs[j].canon(),
                        canon[j]
                    ),
                ));
            }
            if eq && !subs[i].free_vars().is_empty() || (eq && subs[i].has_hybrid()) {
                nontrivial = true;
            }
        }
    }
    // duplicates, re-counted independently
    let mut maps: Vec<(String, HashMap<(String, BTreeMap<String, Option<String>>), i32>, Vec<Occ>)> = vec![];
    match guard(|| mark_duplicates_canonized_multiple(&trees)) {
        Ok(m) => {
            let mut o = vec![];
            for f in &pre {
                occurrences(f, &mut vec![], &mut o);
            }
            maps.push(("multiple".into(), m, o));
        }
        Err(p) => return Verdict::Fail(cfail(&format!("C09:panic:{}", panic_site(&p)), fs, p)),
    }
    for (i, t) in trees.iter().enumerate() {
        match guard(|| mark_duplicates_canonized_single(t)) {
            Ok(m) => {
                let mut o = vec![];
                occurrences(&pre[i], &mut vec![], &mut o);
                maps.push((format!("single#{i}"), m, o));
            }
            Err(p) => return Verdict::Fail(cfail(&format!("C09:panic:{}", panic_site(&p)), fs, p)),
        }
    }
    let mut dup_total = 0;
    for (which, map, occs) in &maps {
        for ((key, doms), n) in map {
            dup_total += 1;
            let key_f = match refparse::parse(key, true) {
                Ok(f) => f,
                Err(e) => {
                    return Verdict::Fail(cfail("C09:duplicate-key-unreadable", fs, format!("{which}: key `{key}`: {e:?}")))
                }
            };
            let found = count_matches(occs, &key_f, doms);
            if *n < 1 || found < (*n as usize) + 1 {
                return Verdict::Fail(cfail(
                    "C09:duplicate-count",
                    fs,
                    format!(
                        "{which}: `{key}` with domains {doms:?} is reported as duplicate with counter {n}, but it occurs only {found} times (up to renaming, with identical domains of free variables)"
                    ),
                ));
            }
        }
    }
    if dup_total > 0 {
        nontrivial = true;
    }
    let mut classes = vec![format!("formulas={}", fs.len()), format!("duplicates={}", dup_total.min(5))];
    if fs.iter().any(|f| f.has_wild_or_domain()) {
        classes.push("extended".into());
    }
    Verdict::Pass(CaseReport {
        nontrivial,
        key: hash_of(fs),
        classes,
        sample: json!({"formulas": pre.iter().map(|f| f.canon()).collect::<Vec<_>>(), "duplicate_entries": dup_total}),
    })
}

impl Property for C09 {
    type Raw = Vec<RawF>;
    fn id(&self) -> &'static str {
        "C09"
    }
    fn rule(&self) -> String {
        "random lists of 1-4 closed formulae (plain and extended; generated with a 'repeat an earlier sub-formula re-instantiated in the current scope' production so that alpha-equivalent and nearly equivalent sub-formulae occur), preprocessed by the crate; for up to 40 distinct sub-formulae: canonical form idempotent, a renaming of the sub-formula, returned map correct and injective on free variables; for all pairs: same canonical form <=> structurally alpha-equivalent; every (key, n) of mark_duplicates_canonized_multiple / _single is re-counted over all sub-tree occurrences (alpha-equivalent to the re-parsed key, identical domains of free variables) >= n+1. Non-trivial: an equivalent pair involving variables, or a non-empty duplicate map.".into()
    }
    fn assumptions(&self) -> Vec<String> {
        vec![
            "inputs are sub-formulae of formulae preprocessed by validate_props_and_rename_vars (the documented precondition of the canoniser)".into(),
            "the concrete spelling of canonical names is not asserted".into(),
        ]
    }
    fn cases(&self, tier: Tier) -> u32 {
        tier.pick(60_000, 1_500_000)
    }
    fn strategy(&self, _tier: Tier) -> BoxedStrategy<Self::Raw> {
        prop::collection::vec(gen::raw_f(5, 18), 1..=4).boxed()
    }
    fn check_raw(&self, raw: &Self::Raw) -> Verdict {
        let props: Vec<String> = gen::VAR_NAMES.iter().map(|s| s.to_string()).collect();
        let labels: Vec<String> = gen::LABELS.iter().map(|s| s.to_string()).collect();
        let env = FEnv {
            props: &props,
            labels: &labels,
            cfg: FCfg { max_quant_depth: 6, ..FCfg::EXTENDED_WEAK },
            binders: &gen::BINDERS,
        };
        let fs = gen::resolve_batch(raw, &env);
        check_batch(&fs)
    }
    fn replay(&self, case: &Value) -> Verdict {
        match serde_json::from_value::<Vec<F>>(case["formulas"].clone()) {
            Ok(fs) => check_batch(&fs),
            Err(_) => Verdict::Discard("unreadable-case"),
        }
    }
}
