//! C13 — EW / AW are weak until.
//! Oracles: (a) explicit evaluator (greatest fixed points of psi | (phi & EX/AX Z)); (b) the two
//! defining equivalences of the property text evaluated through the tool itself:
//! E[phi W psi] = E[phi U psi] | EG phi and A[phi W psi] = ~E[~psi U (~phi & ~psi)];
//! (c) corollary: every psi-state satisfies both.

use super::common::*;
use crate::ast::*;
use crate::engine::*;
use crate::gen::FCfg;
use crate::model::Net;
use crate::sem::*;
use proptest::strategy::BoxedStrategy;
use serde_json::Value;

pub struct C13;

/// The weak-until sub-formulae with closed operands (for the equivalence oracle).
fn closed_weak_untils(f: &F) -> Vec<(BinOp, F, F)> {
    let mut out = vec![];
    f.visit(&mut |g| {
        if let F::Bin(op @ (BinOp::EW | BinOp::AW), a, b) = g {
            if a.is_closed() && b.is_closed() {
                out.push((*op, (**a).clone(), (**b).clone()));
            }
        }
    });
    out
}

fn check(case: &SemCase, net: &Net, f: &F) -> Verdict {
    if f.has_wild_or_domain() || !f.has_weak_until() || !f.is_closed() {
        return Verdict::Discard("outside-C13-domain");
    }
    let colours = sample_colours(net, 64);
    let want = &expected_many(net, std::slice::from_ref(f), &case.context, &colours)[0];
    let results = match run_plain("C13", net, case, &case.formulas[0]) {
        Ok(r) => r,
        Err(fl) => return Verdict::Fail(fl),
    };
    if let Err(fl) = compare_all("C13", net, case, &results, &colours, want) {
        return Verdict::Fail(fl);
    }
    // defining equivalences, through the tool itself
    let mut nontrivial = false;
    let mut classes = net_classes(net);
    for (op, phi, psi) in closed_weak_untils(f).into_iter().take(2) {
        let weak = F::bin(op, phi.clone(), psi.clone());
        let defined = match op {
            BinOp::EW => F::bin(
                BinOp::Or,
                F::bin(BinOp::EU, phi.clone(), psi.clone()),
                F::un(UnOp::EG, phi.clone()),
            ),
            _ => F::not(F::bin(
                BinOp::EU,
                F::not(psi.clone()),
                F::and(F::not(phi.clone()), F::not(psi.clone())),
            )),
        };
        use biodivine_hctl_model_checker::model_checking::model_check_formula;
        let g = &net.graph;
        let (wt, dt, pt) = (weak.canon(), defined.canon(), psi.canon());
        let a = call_ok!("C13", case, "model_check_formula", model_check_formula(&wt, g));
        let b = call_ok!("C13", case, "model_check_formula", model_check_formula(&dt, g));
        let p = call_ok!("C13", case, "model_check_formula", model_check_formula(&pt, g));
        if a != b {
            return Verdict::Fail(fail(
                "C13:defining-equivalence",
                format!("`{wt}` and its defining form `{dt}` evaluate to different sets"),
                case,
            ));
        }
        use biodivine_lib_param_bn::biodivine_std::traits::Set;
        if !p.is_subset(&a) {
            return Verdict::Fail(fail(
                "C13:psi-not-included",
                format!("some state satisfying `{pt}` does not satisfy `{wt}`"),
                case,
            ));
        }
        // non-trivial: psi non-empty and phi misses some psi-state (for some sampled colour)
        let sets = expected_many(net, &[phi.clone(), psi.clone()], &case.context, &colours);
        if sets[1].iter().zip(&sets[0]).any(|(ps, ph)| *ps != 0 && (ps & !ph) != 0) {
            nontrivial = true;
        }
        classes.push(format!("weak:{}", op.text()));
    }
    classes.extend(formula_classes(f));
    Verdict::Pass(CaseReport {
        nontrivial,
        key: case.key(),
        classes,
        sample: case.sample(),
    })
}

impl Property for C13 {
    type Raw = crate::scale::WithMid<RawSem>;
    fn id(&self) -> &'static str {
        "C13"
    }
    fn rule(&self) -> String {
        "random network x closed plain formula forced to contain EW or AW; compared point-wise with the explicit evaluator (greatest fixed points) through 8 entry points; for weak-until sub-formulae with closed operands the two defining equivalences of the property text and `psi implies phi W psi` are evaluated through the tool itself. Non-trivial: some weak until has closed operands with psi non-empty and phi not containing some psi-state (in a sampled valid colour).".into()
    }
    fn assumptions(&self) -> Vec<String> {
        vec![
            "same trusted base as C01".into(),
            "weak until read as in the property text: paths satisfying phi until psi, or phi forever".into(),
        ]
    }
    fn cases(&self, tier: Tier) -> u32 {
        tier.pick(30_000, 1_000_000)
    }
    fn strategy(&self, tier: Tier) -> BoxedStrategy<crate::scale::WithMid<RawSem>> {
        crate::scale::with_mid(raw_sem(tier.pick(3, 4), 2..=2, 4, tier.pick(10, 16)), tier.pick(99, 249), 1, tier.pick(600, 2500))
    }
    fn check_raw(&self, raw: &crate::scale::WithMid<RawSem>) -> Verdict {
        let raw = match raw {
            crate::scale::WithMid::Small(r) => r,
            crate::scale::WithMid::Mid(raw, ms) => {
                // force a weak-until at the top so that every mid-size case is in the property's domain
                let mut raw = raw.clone();
                raw.1 = crate::gen::RawF::Bin(7 + raw.2 % 2, Box::new(raw.1.clone()), Box::new(crate::gen::RawF::Prop(raw.2 as u16 * 257)));
                return crate::scale::check_mid("C13", &raw, *ms, FCfg::PLAIN_WEAK);
            }
        };
        match resolve_sem(raw, FCfg::PLAIN_WEAK) {
            Err(r) => Verdict::Discard(r),
            Ok((mut case, fs, net)) => {
                // force a weak until: combine the two generated formulae if the first has none
                let f = if fs[0].has_weak_until() {
                    fs[0].clone()
                } else {
                    let op = if raw.extra_k % 2 == 0 { BinOp::EW } else { BinOp::AW };
                    F::bin(op, fs[0].clone(), fs[1].clone())
                };
                case.formulas = vec![f.canon()];
                check(&case, &net, &f)
            }
        }
    }
    fn replay(&self, case: &Value) -> Verdict {
        if let Some(v) = crate::scale::replay_scale("C13", case) {
            return v;
        }
        replay_with(case, |case, net, fs| check(case, net, &fs[0]))
    }
    fn extra_stages(&self, tier: Tier, seed: u64, stats: &mut Stats) -> Option<Failure> {
        crate::scale::calibrate(seed, tier.pick(1500, 20_000), FCfg::PLAIN_WEAK, stats);
        let mut models: Vec<&str> = crate::scale::SCALE_MODELS_QUICK.to_vec();
        if tier == Tier::Thorough {
            models.extend(crate::scale::SCALE_MODELS_MORE);
        }
        crate::scale::bundled_scale_stage_with("C13", &models, tier.pick(8, 50), seed, std::time::Duration::from_secs(tier.pick(5, 30)), FCfg::PLAIN_WEAK, 1, true, stats)
    }
}
