//! C05 — the parser accepts exactly the documented grammar and never drops input.
//! Oracles: differential against the reference tokenizer + parser (same accept / reject, same
//! tree); conservation invariant (tree nodes == non-parenthesis tokens); plain parser rejects
//! wild-cards / domains; extended == plain on plain strings.
//! Engines: bounded-exhaustive token sequences (stage A), proptest (stage B: rendered formulae
//! with character-level mutations, token soup, lexical corner strings).

use crate::ast::*;
use crate::engine::*;
use crate::gen::{self, FCfg, FEnv, RawF};
use crate::refparse::{self, ParseErr, Tok};
use crate::render::{render, Choices, Style};
use biodivine_hctl_model_checker::preprocessing::parser::{parse_extended_formula, parse_hctl_formula};
use proptest::prelude::*;
use serde_json::{json, Value};
use std::sync::atomic::{AtomicBool, Ordering};
use std::sync::Mutex;

pub struct C05;

pub struct TextReport {
    pub nontrivial: bool,
    pub class: &'static str,
}

fn tfail(class: &str, text: &str, message: String) -> Failure {
    Failure {
        class: class.to_string(),
        message,
        case: json!({"text": text}),
    }
}

/// The complete C05 oracle for one input string.
pub fn check_text(text: &str) -> Result<TextReport, Failure> {
    let toks = refparse::lex(text, true);
    let r_ext = refparse::parse(text, true);
    let r_plain = refparse::parse(text, false);
    let owned = text.to_string();
    let i_ext = guard(|| parse_extended_formula(&owned))
        .map_err(|p| tfail(&format!("C05:panic:{}", panic_site(&p)), text, format!("parse_extended_formula panicked: {p}")))?;
    let i_plain = guard(|| parse_hctl_formula(&owned))
        .map_err(|p| tfail(&format!("C05:panic:{}", panic_site(&p)), text, format!("parse_hctl_formula panicked: {p}")))?;
    for (mode, r, i) in [("extended", &r_ext, &i_ext), ("plain", &r_plain, &i_plain)] {
        match (r, i) {
            (Ok(f), Ok(t)) => {
                let got = from_tree(t);
                if got != *f {
                    return Err(tfail(
                        &format!("C05:tree-differs:{mode}"),
                        text,
                        format!(
                            "{mode} parser: `{text}` parsed to `{}`, the documented grammar dictates `{}`",
                            got.canon(),
                            f.canon()
                        ),
                    ));
                }
            }
            (Ok(f), Err(e)) => {
                return Err(tfail(
                    &format!("C05:rejects-valid:{mode}"),
                    text,
                    format!("{mode} parser rejects `{text}` ({e}), which the grammar derives as `{}`", f.canon()),
                ))
            }
            (Err(e), Ok(t)) => {
                return Err(tfail(
                    &format!("C05:accepts-invalid:{mode}"),
                    text,
                    format!(
                        "{mode} parser accepts `{text}` as `{}`, which is not derivable from the grammar ({e:?})",
                        t.as_str()
                    ),
                ))
            }
            (Err(_), Err(_)) => {}
        }
    }
    // conservation: no token of an accepted input is ignored (independent of the grammar)
    if let (Ok(t), Ok(toks)) = (&i_ext, &toks) {
        let nodes = from_tree(t).size();
        let expected = refparse::count_node_tokens(toks);
        if nodes != expected {
            return Err(tfail(
                "C05:token-dropped",
                text,
                format!("`{text}` has {expected} non-parenthesis tokens but the accepted tree `{}` has {nodes} nodes", t.as_str()),
            ));
        }
    }
    // the plain parser rejects wild-cards and domains
    if let Ok(toks) = &toks {
        let extended_only = toks
            .iter()
            .any(|t| matches!(t, Tok::Wild(_) | Tok::Hyb(_, _, Some(_))));
        if extended_only && i_plain.is_ok() {
            return Err(tfail(
                "C05:plain-accepts-extended",
                text,
                format!("the plain parser accepts `{text}`, which contains a wild-card or a domain"),
            ));
        }
    }
    // the extended parser yields the same tree as the plain one on every plain formula
    if let Ok(tp) = &i_plain {
        match &i_ext {
            Ok(te) if te == tp => {}
            _ => {
                return Err(tfail(
                    "C05:plain-extended-differ",
                    text,
                    format!("plain and extended parser disagree on the plain formula `{text}`"),
                ))
            }
        }
    }
    let ntok = toks.as_ref().map(|t| t.len()).unwrap_or(0);
    let (nontrivial, class) = match (&r_ext, &r_plain) {
        (Ok(_), Ok(_)) => (ntok >= 3, "accepted-plain"),
        (Ok(_), Err(_)) => (ntok >= 3, "accepted-extended-only"),
        (Err(ParseErr::Structural(_)), _) => (true, "rejected-structural"),
        (Err(ParseErr::Lexical(_)), _) => (false, "rejected-lexical"),
    };
    Ok(TextReport { nontrivial, class })
}

fn verdict_of(text: &str, origin: &str) -> Verdict {
    match check_text(text) {
        Err(f) => Verdict::Fail(f),
        Ok(rep) => Verdict::Pass(CaseReport {
            nontrivial: rep.nontrivial,
            key: hash_of(text),
            classes: vec![rep.class.to_string(), format!("origin:{origin}")],
            sample: json!({"text": text, "class": rep.class}),
        }),
    }
}

pub const SMALL_ALPHABET: [&str; 16] = [
    "p", "q", "{x}", "%w%", "true", "~", "EX", "&", "|", "=>", "EU", "(", ")", "!{x}:", "@{x}:",
    "3{y} in %d%:",
];

pub const BIG_ALPHABET: [&str; 44] = [
    "p", "q", "a1", "EXp", "true", "false", "0", "1", "True", "{x}", "{y}", "%w%", "%d%", "~", "EX",
    "AX", "EF", "AF", "EG", "AG", "&", "|", "^", "=>", "<=>", "EU", "AU", "EW", "AW", "(", ")", "(",
    ")", "!{x}:", "@{x}:", "3{y}:", "V{x}:", "!{x} in %d%:", "3{y} in %w%:", "V{z} in %d%:",
    "\\bind {x}:", "\\jump {x}:", "\\exists {y} in %d%:", "\\forall {x}:",
];

pub const LEX_CHARS: [char; 34] = [
    'E', 'A', 'X', 'F', 'G', 'U', 'W', '3', 'V', '_', 'a', '1', 'é', '٣', ' ', '{', '}', '%', '!',
    '@', ':', '~', '(', ')', '\\', 'i', 'n', '<', '=', '>', '&', '\u{a0}', 'x', '\t',
];

#[derive(Clone, Debug)]
pub enum RawText {
    /// a generated formula, rendered with a random style, then mutated at character level
    Rendered(RawF, u8, Vec<u16>, Vec<(u8, u16, u16)>),
    /// random tokens of the big alphabet joined by blanks
    Soup(Vec<u16>),
    /// a short string over a lexical corner alphabet, alone or as an operand
    Lexical(Vec<u16>, u8),
}

pub fn style_of(sel: u8) -> Style {
    Style {
        redundant_parens: [0, 0, 3, 5][(sel & 3) as usize],
        whitespace: sel & 4 != 0,
        long_names: sel & 8 != 0,
        constant_spellings: sel & 16 != 0,
        full_parens: sel & 32 != 0 && sel & 64 != 0,
    }
}

pub fn generic_env_formula(raw: &RawF) -> F {
    let props: Vec<String> = ["p", "q", "a1", "EXp", "v_1"].iter().map(|s| s.to_string()).collect();
    // wild-card / domain labels: the shared pool plus names that coincide with the spellings of
    // the constants, a number and an internal variable name (any name over [A-Za-z0-9_] is a label)
    let labels: Vec<String> = gen::LABELS.iter().copied().chain(["0", "True", "false", "x"]).map(|s| s.to_string()).collect();
    let env = FEnv {
        props: &props,
        labels: &labels,
        cfg: FCfg::EXTENDED_WEAK,
        binders: &gen::BINDERS,
    };
    gen::resolve_f(raw, &env)
}

fn resolve_text(raw: &RawText) -> (String, &'static str) {
    match raw {
        RawText::Rendered(rf, style, choices, muts) => {
            let f = generic_env_formula(rf);
            let mut ch = Choices::new(choices.clone());
            let mut text: Vec<char> = render(&f, style_of(*style), &mut ch).chars().collect();
            for (kind, pos, c) in muts {
                if text.is_empty() {
                    break;
                }
                let i = gen::idx(*pos, text.len());
                match kind % 4 {
                    0 => {
                        text.remove(i);
                    }
                    1 => text.insert(i, LEX_CHARS[gen::idx(*c, LEX_CHARS.len())]),
                    2 => {
                        if i + 1 < text.len() {
                            text.swap(i, i + 1);
                        }
                    }
                    _ => {
                        // duplicate a short slice
                        let j = (i + 1 + gen::idx(*c, 4)).min(text.len());
                        let slice: Vec<char> = text[i..j].to_vec();
                        for (k, ch) in slice.into_iter().enumerate() {
                            text.insert(j + k, ch);
                        }
                    }
                }
            }
            (text.into_iter().collect(), if muts.is_empty() { "rendered" } else { "mutated" })
        }
        RawText::Soup(sels) => (
            sels.iter()
                .map(|s| BIG_ALPHABET[gen::idx(*s, BIG_ALPHABET.len())])
                .collect::<Vec<_>>()
                .join(" "),
            "token-soup",
        ),
        RawText::Lexical(sels, ctx) => {
            let w: String = sels
                .iter()
                .map(|s| LEX_CHARS[gen::idx(*s, LEX_CHARS.len())])
                .collect();
            let text = match ctx % 5 {
                0 => w,
                1 => format!("p & {w}"),
                2 => format!("{w} EU p"),
                3 => format!("!{{x}}: {w}"),
                _ => format!("({w})"),
            };
            (text, "lexical")
        }
    }
}

fn enumerate_exhaustive(max_len: usize, stats: &mut Stats) -> Option<Failure> {
    // all sequences of 1..=max_len tokens over SMALL_ALPHABET, split over threads by first token
    let n = SMALL_ALPHABET.len();
    let stop = AtomicBool::new(false);
    let best: Mutex<Option<(usize, Vec<usize>, Failure)>> = Mutex::new(None);
    let totals: Mutex<(u64, u64, std::collections::BTreeMap<String, u64>, Vec<Value>)> =
        Mutex::new((0, 0, Default::default(), vec![]));
    std::thread::scope(|scope| {
        for first in 0..n {
            let stop = &stop;
            let best = &best;
            let totals = &totals;
            scope.spawn(move || {
                let mut count = 0u64;
                let mut nontrivial = 0u64;
                let mut classes: std::collections::BTreeMap<String, u64> = Default::default();
                let mut samples: Vec<Value> = vec![];
                'outer: for len in 1..=max_len {
                    let rest = (n as u64).pow(len as u32 - 1);
                    for code in 0..rest {
                        if stop.load(Ordering::Relaxed) {
                            break 'outer;
                        }
                        // decode: position 0 fixed, the others are the base-n digits of `code`
                        // (most significant first, so the order is lexicographic)
                        let mut seq = vec![first; len];
                        let mut c = code;
                        for i in (1..len).rev() {
                            seq[i] = (c % n as u64) as usize;
                            c /= n as u64;
                        }
                        let text = seq.iter().map(|i| SMALL_ALPHABET[*i]).collect::<Vec<_>>().join(" ");
                        count += 1;
                        match check_text(&text) {
                            Ok(rep) => {
                                *classes.entry(rep.class.to_string()).or_default() += 1;
                                if rep.nontrivial {
                                    nontrivial += 1;
                                    if samples.len() < 2 && rep.class != "rejected-structural" {
                                        samples.push(json!({"text": text, "class": rep.class, "stage": "exhaustive"}));
                                    }
                                }
                            }
                            Err(f) => {
                                let mut b = best.lock().unwrap();
                                let better = match &*b {
                                    None => true,
                                    Some((l, s, _)) => (len, &seq) < (*l, s),
                                };
                                if better {
                                    *b = Some((len, seq.clone(), f));
                                }
                                // longer or later sequences of this thread cannot be smaller
                                break 'outer;
                            }
                        }
                    }
                }
                let mut t = totals.lock().unwrap();
                t.0 += count;
                t.1 += nontrivial;
                for (k, v) in classes {
                    *t.2.entry(k).or_default() += v;
                }
                for s in samples {
                    if t.3.len() < 4 {
                        t.3.push(s);
                    }
                }
            });
        }
    });
    let (count, nontrivial, classes, samples) = totals.into_inner().unwrap();
    stats.evaluations += count;
    stats.nontrivial += nontrivial;
    stats.distinct_by_construction += nontrivial;
    for (k, v) in classes {
        *stats.classes.entry(format!("exhaustive:{k}")).or_default() += v;
    }
    stats.samples.extend(samples);
    let failure = best.into_inner().unwrap().map(|(_, _, f)| f);
    stats.exhaustive = failure.is_none();
    stats.stages.insert(
        "exhaustive".into(),
        json!({"alphabet": SMALL_ALPHABET, "max_tokens": max_len, "sequences": count, "complete": failure.is_none()}),
    );
    failure
}

impl Property for C05 {
    type Raw = RawText;
    fn id(&self) -> &'static str {
        "C05"
    }
    fn rule(&self) -> String {
        "stage A: ALL sequences of 1..N tokens (N=5 quick, 6 thorough) over a 16-token alphabet joined by blanks (exhaustive: true refers to this sub-domain); stage B: random strings - generated formulae rendered with random parenthesisation / whitespace / spellings and then mutated at character level, token soup over a 44-token alphabet, short strings over a lexical corner alphabet (E/A/V/3 prefixes, digits, underscore, unicode letters and digits, unicode blanks). Each string: both parsers vs the reference lexer+parser (accept/reject and tree), conservation (tree nodes == non-parenthesis tokens), plain rejects wild-cards/domains, extended == plain on plain strings. Non-trivial: accepted with >= 3 tokens, or rejected for a structural (not lexical) reason; distinct = distinct strings.".into()
    }
    fn assumptions(&self) -> Vec<String> {
        vec![
            "the reference grammar is README + parser module docs + the property text: maximal-run lexing, hybrid operators only at the start of a formula or group, right-associative binary operators".into(),
            "char::is_alphanumeric / is_whitespace define name characters and blanks (as the documentation's 'alphanumeric characters and underscores')".into(),
        ]
    }
    fn cases(&self, tier: Tier) -> u32 {
        if std::env::var("VERIF_FUZZ_ONLY").is_ok() {
            return 16;
        }
        tier.pick(200_000, 6_000_000)
    }
    fn strategy(&self, _tier: Tier) -> BoxedStrategy<RawText> {
        prop_oneof![
            5 => (
                gen::raw_f(5, 20),
                any::<u8>(),
                prop::collection::vec(any::<u16>(), 0..24),
                prop::collection::vec((any::<u8>(), any::<u16>(), any::<u16>()), 0..=2)
            )
                .prop_map(|(f, s, c, m)| RawText::Rendered(f, s, c, m)),
            3 => prop::collection::vec(any::<u16>(), 1..12).prop_map(RawText::Soup),
            2 => (prop::collection::vec(any::<u16>(), 1..9), any::<u8>())
                .prop_map(|(w, c)| RawText::Lexical(w, c)),
        ]
        .boxed()
    }
    fn check_raw(&self, raw: &RawText) -> Verdict {
        let (text, origin) = resolve_text(raw);
        verdict_of(&text, origin)
    }
    fn replay(&self, case: &Value) -> Verdict {
        match case.get("text").and_then(|t| t.as_str()) {
            Some(t) => verdict_of(t, "replay"),
            None => Verdict::Discard("unreadable-case"),
        }
    }
    fn extra_stages(&self, tier: Tier, seed: u64, stats: &mut Stats) -> Option<Failure> {
        // VERIF_FUZZ_ONLY=1 (development aid): skip the other stages to exercise the fuzz stage alone
        let fuzz_only = std::env::var("VERIF_FUZZ_ONLY").is_ok();
        if !fuzz_only {
            if let Some(f) = enumerate_exhaustive(tier.pick(5, 6), stats) {
                return Some(f);
            }
        }
        if tier == Tier::Thorough {
            // stage C: coverage-guided fuzzing on raw bytes, same oracle inside the target
            return crate::fuzzstage::run_fuzz_stage("parse_diff", 400_000, 8, seed, stats, &|bytes| {
                let text = String::from_utf8_lossy(bytes).to_string();
                let class = match crate::fuzz_api::parse_diff_verdict(&text) {
                    Ok(()) => return None,
                    Err((class, _)) => class,
                };
                let min = crate::fuzzstage::ddmin(&text, &|t| {
                    matches!(crate::fuzz_api::parse_diff_verdict(t), Err((c, _)) if c == class)
                });
                check_text(&min).err()
            });
        }
        None
    }
}
