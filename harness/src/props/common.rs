//! Calling the crate's entry points under `guard`, uniformly.

use crate::engine::*;
use crate::model::Net;
use crate::sem::*;
use biodivine_hctl_model_checker::evaluation::LabelToSetMap;
use biodivine_hctl_model_checker::model_checking::*;
use biodivine_hctl_model_checker::preprocessing::parser::{
    parse_and_minimize_extended_formula, parse_and_minimize_hctl_formula,
};
use biodivine_lib_param_bn::symbolic_async_graph::GraphColoredVertices;

pub struct EntryResult {
    pub name: &'static str,
    pub sanitised: bool,
    pub set: GraphColoredVertices,
}

pub fn panic_fail(prefix: &str, what: &str, p: &str, case: &SemCase) -> Failure {
    fail(
        &format!("{prefix}:panic:{}", panic_site(p)),
        format!("{what} panicked: {p}"),
        case,
    )
}

macro_rules! call {
    ($prefix:expr, $case:expr, $name:expr, $e:expr) => {
        match guard(|| $e) {
            Err(p) => return Err(panic_fail($prefix, $name, &p, $case)),
            Ok(Err(e)) => {
                return Err(fail(
                    &format!("{}:unexpected-error:{}", $prefix, $name),
                    format!("{} returned Err({e}) on a valid closed formula", $name),
                    $case,
                ))
            }
            Ok(Ok(v)) => v,
        }
    };
}
#[allow(unused_imports)]
pub(crate) use call;

fn single(
    prefix: &str,
    case: &SemCase,
    name: &'static str,
    mut v: Vec<GraphColoredVertices>,
) -> Result<GraphColoredVertices, Failure> {
    if v.len() != 1 {
        return Err(fail(
            &format!("{prefix}:batch-length:{name}"),
            format!("{name}: one formula in, {} results out", v.len()),
            case,
        ));
    }
    Ok(v.remove(0))
}

/// All plain entry points on one closed plain formula.
pub fn run_plain(
    prefix: &str,
    net: &Net,
    case: &SemCase,
    text: &str,
) -> Result<Vec<EntryResult>, Failure> {
    let g = &net.graph;
    let mut out = vec![];
    let mut push = |name, sanitised, set| out.push(EntryResult { name, sanitised, set });
    let r = call!(prefix, case, "model_check_formula_dirty", model_check_formula_dirty(text, g));
    push("model_check_formula_dirty", false, r);
    let r = call!(prefix, case, "model_check_formula", model_check_formula(text, g));
    push("model_check_formula", true, r);
    let tree = call!(
        prefix,
        case,
        "parse_and_minimize_hctl_formula",
        parse_and_minimize_hctl_formula(g.symbolic_context(), text)
    );
    let r = call!(prefix, case, "model_check_tree_dirty", model_check_tree_dirty(tree.clone(), g));
    push("model_check_tree_dirty", false, r);
    let r = call!(prefix, case, "model_check_tree", model_check_tree(tree.clone(), g));
    push("model_check_tree", true, r);
    let r = call!(
        prefix,
        case,
        "model_check_multiple_formulae_dirty",
        model_check_multiple_formulae_dirty(vec![text], g)
    );
    push(
        "model_check_multiple_formulae_dirty",
        false,
        single(prefix, case, "model_check_multiple_formulae_dirty", r)?,
    );
    let r = call!(
        prefix,
        case,
        "model_check_multiple_formulae",
        model_check_multiple_formulae(vec![text], g)
    );
    push(
        "model_check_multiple_formulae",
        true,
        single(prefix, case, "model_check_multiple_formulae", r)?,
    );
    let r = call!(
        prefix,
        case,
        "model_check_multiple_trees_dirty",
        model_check_multiple_trees_dirty(vec![tree.clone()], g)
    );
    push(
        "model_check_multiple_trees_dirty",
        false,
        single(prefix, case, "model_check_multiple_trees_dirty", r)?,
    );
    let r = call!(
        prefix,
        case,
        "model_check_multiple_trees",
        model_check_multiple_trees(vec![tree], g)
    );
    push(
        "model_check_multiple_trees",
        true,
        single(prefix, case, "model_check_multiple_trees", r)?,
    );
    Ok(out)
}

/// All extended entry points on one closed extended formula.
pub fn run_extended(
    prefix: &str,
    net: &Net,
    case: &SemCase,
    text: &str,
    ctx: &LabelToSetMap,
) -> Result<Vec<EntryResult>, Failure> {
    let g = &net.graph;
    let mut out = vec![];
    let mut push = |name, sanitised, set| out.push(EntryResult { name, sanitised, set });
    // make sure the text is readable by the extended parser first (gives a clearer failure class)
    let _ = call!(
        prefix,
        case,
        "parse_and_minimize_extended_formula",
        parse_and_minimize_extended_formula(g.symbolic_context(), text)
    );
    let r = call!(
        prefix,
        case,
        "model_check_extended_formula_dirty",
        model_check_extended_formula_dirty(text, g, ctx)
    );
    push("model_check_extended_formula_dirty", false, r);
    let r = call!(
        prefix,
        case,
        "model_check_extended_formula",
        model_check_extended_formula(text, g, ctx)
    );
    push("model_check_extended_formula", true, r);
    let r = call!(
        prefix,
        case,
        "model_check_multiple_extended_formulae_dirty",
        model_check_multiple_extended_formulae_dirty(vec![text], g, ctx)
    );
    push(
        "model_check_multiple_extended_formulae_dirty",
        false,
        single(prefix, case, "model_check_multiple_extended_formulae_dirty", r)?,
    );
    let r = call!(
        prefix,
        case,
        "model_check_multiple_extended_formulae",
        model_check_multiple_extended_formulae(vec![text], g, ctx)
    );
    push(
        "model_check_multiple_extended_formulae",
        true,
        single(prefix, case, "model_check_multiple_extended_formulae", r)?,
    );
    Ok(out)
}

/// Compare every entry-point result with the expected per-colour state sets.
pub fn compare_all(
    prefix: &str,
    net: &Net,
    case: &SemCase,
    results: &[EntryResult],
    colours: &[u64],
    want: &[u64],
) -> Result<(), Failure> {
    for r in results {
        let res = if r.sanitised {
            compare_sanitised(net, &r.set, colours, want)
        } else {
            compare_raw(net, &r.set, colours, want)
        };
        if let Err(m) = res {
            return Err(fail(
                &format!("{prefix}:mismatch:{}", r.name),
                format!("{}: {m}", r.name),
                case,
            ));
        }
    }
    Ok(())
}

pub fn nontrivial_result(net: &Net, want: &[u64]) -> bool {
    want.iter().any(|s| *s != 0) && want.iter().any(|s| *s != net.all_states())
}

/// Like `call!` but for functions returning `Verdict` (early-returns `Verdict::Fail`).
macro_rules! call_ok {
    ($prefix:expr, $case:expr, $name:expr, $e:expr) => {
        match crate::engine::guard(|| $e) {
            Err(p) => return crate::engine::Verdict::Fail(panic_fail($prefix, $name, &p, $case)),
            Ok(Err(e)) => {
                return crate::engine::Verdict::Fail(crate::sem::fail(
                    &format!("{}:unexpected-error:{}", $prefix, $name),
                    format!("{} returned Err({e}) on a valid closed formula", $name),
                    $case,
                ))
            }
            Ok(Ok(v)) => v,
        }
    };
}
pub(crate) use call_ok;
