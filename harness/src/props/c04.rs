//! C04 — sub-formula caching and batch evaluation are observationally transparent.
//! A history is a batch of formulae evaluated together.  Reference model: *stateless* evaluation —
//! each formula alone, and each formula through `eval_node` with sharing disabled (an `EvalContext`
//! that knows no duplicates).  Also: permuting / repeating the batch permutes / repeats results;
//! runs with and without a progress observer and repeated runs are identical; every position also
//! equals the explicit-state semantics.

use super::common::*;
use crate::ast::*;
use crate::engine::*;
use crate::gen::FCfg;
use crate::model::Net;
use crate::sem::*;
use biodivine_hctl_model_checker::evaluation::algorithm::{compute_steady_states, eval_node};
use biodivine_hctl_model_checker::evaluation::eval_context::EvalContext;
use biodivine_hctl_model_checker::evaluation::mark_duplicates::mark_duplicates_canonized_multiple;
use biodivine_hctl_model_checker::evaluation::{LabelToSetMap, VarDomainMap};
use biodivine_hctl_model_checker::model_checking::*;
use biodivine_hctl_model_checker::preprocessing::hctl_tree::HctlTreeNode;
use biodivine_hctl_model_checker::preprocessing::parser::parse_and_minimize_extended_formula;
use biodivine_lib_param_bn::symbolic_async_graph::GraphColoredVertices;
use proptest::prelude::*;
use serde_json::{json, Value};
use std::collections::HashMap;

pub struct C04;

/// Evaluate one tree with sharing disabled, through public items only.  Returns the set and the
/// number of "Evaluating ..." progress messages.
pub fn eval_unshared(
    net: &Net,
    tree: &HctlTreeNode,
    sym: &LabelToSetMap,
) -> Result<(GraphColoredVertices, usize), String> {
    let g = &net.graph;
    guard(|| {
        let mut ctx = EvalContext::new(HashMap::new());
        // wild-card sets and domain sets (every label goes to both maps: which is which is decided
        // by the position in the formula)
        ctx.extend_context_with_wild_cards(sym, sym);
        for label in sym.keys() {
            // practically infinite occurrence counters: the reference must not depend on eviction
            ctx.duplicates
                .insert((format!("%{label}%"), VarDomainMap::new()), 1 << 30);
        }
        let steady = compute_steady_states(g);
        let mut messages = 0usize;
        let mut cb = |_: &GraphColoredVertices, msg: &str| {
            if msg.starts_with("Evaluating") {
                messages += 1;
            }
        };
        let r = eval_node(tree.clone(), g, &mut ctx, &steady, &mut cb);
        (r, messages)
    })
}

fn check(case: &SemCase, net: &Net, fs: &[F]) -> Verdict {
    if fs.is_empty() || fs.iter().any(|f| !f.is_closed()) {
        return Verdict::Discard("outside-C04-domain");
    }
    let g = &net.graph;
    let sym = symbolic_context(net, &case.context);
    let texts: Vec<&str> = case.formulas.iter().map(|s| s.as_str()).collect();
    let all_plain = fs.iter().all(|f| !f.has_wild_or_domain());
    macro_rules! bad {
        ($class:expr, $($arg:tt)*) => {
            return Verdict::Fail(fail($class, format!($($arg)*), case))
        };
    }

    // the batch, raw, with a recording observer
    let mut batch_messages = 0usize;
    let batch = {
        let mut cb = |_: &GraphColoredVertices, msg: &str| {
            if msg.starts_with("Evaluating") {
                batch_messages += 1;
            }
        };
        call_ok!(
            "C04",
            case,
            "_model_check_multiple_extended_formulae_dirty",
            _model_check_multiple_extended_formulae_dirty(texts.clone(), g, &sym, &mut cb)
        )
    };
    if batch.len() != fs.len() {
        bad!("C04:batch-length", "{} formulae in, {} results out", fs.len(), batch.len());
    }
    // without an observer, several times (samples different hash orders)
    for round in 0..2 {
        let again = call_ok!(
            "C04",
            case,
            "model_check_multiple_extended_formulae_dirty",
            model_check_multiple_extended_formulae_dirty(texts.clone(), g, &sym)
        );
        if again != batch {
            bad!(
                "C04:run-not-repeatable",
                "run {round} without a progress observer differs from the run with an observer"
            );
        }
    }
    // stateless references
    let mut unshared_messages = 0usize;
    let colours = sample_colours(net, 16);
    let wants = expected_many(net, fs, &case.context, &colours);
    for (i, text) in texts.iter().enumerate() {
        let single = call_ok!(
            "C04",
            case,
            "model_check_extended_formula_dirty",
            model_check_extended_formula_dirty(text, g, &sym)
        );
        if single != batch[i] {
            bad!(
                "C04:batch-differs-from-single",
                "position {i} `{text}`: the result inside the batch differs from evaluating the formula alone"
            );
        }
        let tree = call_ok!(
            "C04",
            case,
            "parse_and_minimize_extended_formula",
            parse_and_minimize_extended_formula(g.symbolic_context(), text)
        );
        match eval_unshared(net, &tree, &sym) {
            Err(p) => return Verdict::Fail(panic_fail("C04", "eval_node with sharing disabled", &p, case)),
            Ok((r, m)) => {
                unshared_messages += m;
                if r != batch[i] {
                    bad!(
                        "C04:batch-differs-from-unshared",
                        "position {i} `{text}`: the result inside the batch differs from evaluation with sharing disabled"
                    );
                }
            }
        }
        if let Err(m) = compare_raw(net, &batch[i], &colours, &wants[i]) {
            bad!("C04:mismatch", "position {i} `{text}`: {m}");
        }
    }
    // sanitised batch == sanitised singles
    let batch_s = call_ok!(
        "C04",
        case,
        "model_check_multiple_extended_formulae",
        model_check_multiple_extended_formulae(texts.clone(), g, &sym)
    );
    for (i, text) in texts.iter().enumerate() {
        let single = call_ok!(
            "C04",
            case,
            "model_check_extended_formula",
            model_check_extended_formula(text, g, &sym)
        );
        if batch_s.get(i) != Some(&single) {
            bad!(
                "C04:sanitised-batch-differs-from-single",
                "position {i} `{text}`: sanitised batch result differs from the sanitised single result"
            );
        }
    }
    // plain entry points on plain batches
    if all_plain {
        let a = call_ok!("C04", case, "model_check_multiple_formulae_dirty", model_check_multiple_formulae_dirty(texts.clone(), g));
        if a != batch {
            bad!("C04:plain-batch-differs", "model_check_multiple_formulae_dirty differs from the extended batch entry point on a plain batch");
        }
        let trees: Vec<HctlTreeNode> = {
            let mut v = vec![];
            for t in &texts {
                v.push(call_ok!(
                    "C04",
                    case,
                    "parse_and_minimize_extended_formula",
                    parse_and_minimize_extended_formula(g.symbolic_context(), t)
                ));
            }
            v
        };
        let b = call_ok!("C04", case, "model_check_multiple_trees_dirty", model_check_multiple_trees_dirty(trees.clone(), g));
        if b != batch {
            bad!("C04:tree-batch-differs", "model_check_multiple_trees_dirty differs from the string batch entry point");
        }
        // the sanitising plain batch entry points, position by position
        let c = call_ok!("C04", case, "model_check_multiple_formulae", model_check_multiple_formulae(texts.clone(), g));
        if c != batch_s {
            let i = (0..texts.len()).find(|i| c.get(*i) != batch_s.get(*i)).unwrap_or(0);
            bad!("C04:sanitised-plain-batch-differs", "model_check_multiple_formulae: position {i} `{}` differs from the sanitised result of that formula ({} results for {} formulae)", texts[i.min(texts.len() - 1)], c.len(), texts.len());
        }
        let d = call_ok!("C04", case, "model_check_multiple_trees", model_check_multiple_trees(trees, g));
        if d != batch_s {
            let i = (0..texts.len()).find(|i| d.get(*i) != batch_s.get(*i)).unwrap_or(0);
            bad!("C04:sanitised-tree-batch-differs", "model_check_multiple_trees: position {i} `{}` differs from the sanitised result of that formula", texts[i.min(texts.len() - 1)]);
        }
    }
    // permutation / repetition of the batch
    let perm: Vec<usize> = case
        .extra
        .get("perm")
        .and_then(|p| p.as_array())
        .map(|a| a.iter().filter_map(|x| x.as_u64()).map(|x| x as usize % fs.len()).collect())
        .unwrap_or_default();
    if !perm.is_empty() {
        let texts2: Vec<&str> = perm.iter().map(|i| texts[*i]).collect();
        let r2 = call_ok!(
            "C04",
            case,
            "model_check_multiple_extended_formulae_dirty",
            model_check_multiple_extended_formulae_dirty(texts2, g, &sym)
        );
        for (pos, i) in perm.iter().enumerate() {
            if r2.get(pos) != Some(&batch[*i]) {
                bad!(
                    "C04:reordering-changes-result",
                    "evaluating the batch in the order {perm:?}: position {pos} (formula {i} `{}`) differs from its result in the original batch",
                    texts[*i]
                );
            }
        }
    }

    // classification
    let trees: Vec<HctlTreeNode> = texts
        .iter()
        .filter_map(|t| parse_and_minimize_extended_formula(g.symbolic_context(), t).ok())
        .collect();
    let dups = mark_duplicates_canonized_multiple(&trees);
    let compound_dups = dups.keys().filter(|(k, _)| !k.starts_with('%')).count();
    let hits = unshared_messages.saturating_sub(batch_messages);
    let mut classes = net_classes(net);
    classes.push(format!("batch={}", fs.len()));
    classes.push(format!("compound-duplicates={}", compound_dups.min(4)));
    classes.push(format!("cache-hits={}", if hits == 0 { "0" } else if hits < 4 { "1-3" } else { ">=4" }));
    if dups.keys().any(|(_, d)| d.values().any(|x| x.is_some())) {
        classes.push("duplicate-with-restricted-free-variable".into());
    }
    if dups.keys().any(|(k, _)| k.contains("{var0}")) {
        classes.push("duplicate-with-variable".into());
    }
    if fs.iter().any(|f| f.has_wild_or_domain()) {
        classes.push("extended".into());
    }
    Verdict::Pass(CaseReport {
        nontrivial: !dups.is_empty() && hits > 0,
        key: case.key(),
        classes,
        sample: case.sample(),
    })
}

impl Property for C04 {
    type Raw = (RawSem, bool, Vec<u16>);
    fn id(&self) -> &'static str {
        "C04"
    }
    fn rule(&self) -> String {
        "history = batch of 1-6 closed formulae (plain or extended) on one random network, generated to overlap (shared sub-trees, alpha-renamed copies at other depths, copies inside / outside domain scopes, patterns), plus a random reordering-with-repetition of the batch. Position by position: batch result == formula alone == eval_node with sharing disabled == explicit semantics (16 colours); sanitised and tree / plain batch entry points agree; reordered batch permutes results; runs with / without an observer and repeated runs (3x, sampling hash orders) identical. Non-trivial: the duplicate map of the batch is non-empty and at least one cache hit happened (fewer 'Evaluating' progress messages in the batch run than in the sharing-disabled runs).".into()
    }
    fn assumptions(&self) -> Vec<String> {
        vec![
            "same trusted base as C01/C02".into(),
            "sharing is disabled through public items: eval_node with an EvalContext whose duplicate map holds only the wild-card sets".into(),
            "hash-order dependent behaviour is only sampled (3 runs per history)".into(),
        ]
    }
    fn cases(&self, tier: Tier) -> u32 {
        tier.pick(60_000, 1_500_000)
    }
    fn strategy(&self, tier: Tier) -> BoxedStrategy<Self::Raw> {
        (
            raw_sem(tier.pick(3, 4), 1..=tier.pick(4, 6), 4, tier.pick(12, 15)),
            prop::bool::weighted(0.7),
            prop::collection::vec(any::<u16>(), 0..=6),
        )
            .boxed()
    }
    fn check_raw(&self, raw: &Self::Raw) -> Verdict {
        let cfg = if raw.1 { FCfg::EXTENDED_WEAK } else { FCfg::PLAIN_WEAK };
        match resolve_sem(&raw.0, cfg) {
            Err(r) => Verdict::Discard(r),
            Ok((mut case, fs, net)) => {
                let perm: Vec<usize> = raw.2.iter().map(|s| crate::gen::idx(*s, fs.len())).collect();
                case.extra = json!({"perm": perm});
                check(&case, &net, &fs)
            }
        }
    }
    fn replay(&self, case: &Value) -> Verdict {
        replay_with(case, check)
    }
}
