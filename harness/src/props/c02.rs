//! C02 — wild-card propositions and restricted domains have the documented meaning.
//! Oracles: (a) explicit evaluator with the semantics of the property text (bind x in d: current
//! state in d and body; exists/forall x in d: range over d's states for the colour in question,
//! empty domain => false / true); (b) the three README equivalences, both sides evaluated through
//! the tool, for generated bodies.

use super::common::*;
use crate::ast::*;
use crate::engine::*;
use crate::gen::{self, classify_set, FCfg, SetClass};
use crate::model::Net;
use crate::sem::*;
use proptest::strategy::BoxedStrategy;
use serde_json::{json, Value};

pub struct C02;

/// The three README equivalences instantiated for a body (open in `x`) and a domain label.
pub fn readme_pairs(body: &F, x: &str, d: &str) -> Vec<(F, F)> {
    let jump = |f: F| F::hyb(HybOp::Jump, x, None, f);
    vec![
        (
            F::hyb(HybOp::Bind, x, Some(d), body.clone()),
            F::hyb(HybOp::Bind, x, None, F::and(F::wild(d), body.clone())),
        ),
        (
            F::hyb(HybOp::Exists, x, Some(d), jump(body.clone())),
            F::hyb(HybOp::Exists, x, None, jump(F::and(F::wild(d), body.clone()))),
        ),
        (
            F::hyb(HybOp::Forall, x, Some(d), jump(body.clone())),
            F::hyb(
                HybOp::Forall,
                x,
                None,
                jump(F::bin(BinOp::Imp, F::wild(d), body.clone())),
            ),
        ),
    ]
}

fn domain_subclasses(f: &F, case: &SemCase, net: &Net, out: &mut Vec<String>) -> bool {
    let mut interesting = false;
    // nested domains, bodies not mentioning the variable, label emptiness classes
    fn nested(f: &F, inside: bool) -> bool {
        match f {
            F::Hyb(_, _, Some(_), a) => inside || nested(a, true),
            _ => f.children().iter().any(|c| nested(c, inside)),
        }
    }
    if nested(f, false) {
        out.push("domains-nested".into());
        interesting = true;
    }
    let mut body_ignores = false;
    f.visit(&mut |g| {
        if let F::Hyb(op, v, Some(_), a) = g {
            if op.is_quantifier() && !a.free_vars().contains(v) {
                body_ignores = true;
            }
        }
    });
    if body_ignores {
        out.push("body-ignores-variable".into());
        interesting = true;
    }
    let (_, doms) = f.labels();
    for d in doms {
        if let Some(set) = case.context.get(&d) {
            let class = classify_set(set, net);
            out.push(format!("domain-set:{class:?}"));
            if class == SetClass::EmptyForSomeColours {
                interesting = true;
            }
        }
    }
    interesting
}

fn check(case: &SemCase, net: &Net, fs: &[F]) -> Verdict {
    if fs.iter().any(|f| !f.is_closed()) {
        return Verdict::Discard("outside-C02-domain");
    }
    let sym = symbolic_context(net, &case.context);
    // the explicit evaluation costs about (formula size) x states^(nesting depth) per colour; the
    // number of colours compared is reduced (never below 3) when seven large, deeply nested formulae
    // over 64 states would otherwise take minutes
    let cost: f64 = fs.iter().map(|f| f.size() as f64 * (net.num_states() as f64).powi(f.quant_depth() as i32)).sum();
    let affordable = (3.0e7 / cost.max(1.0)).floor() as usize;
    let colours = sample_colours(net, affordable.clamp(3, 48));
    let wants = expected_many(net, fs, &case.context, &colours);
    let mut all_results = vec![];
    for (i, f) in fs.iter().enumerate() {
        let _ = f;
        let results = match run_extended("C02", net, case, &case.formulas[i], &sym) {
            Ok(r) => r,
            Err(fl) => return Verdict::Fail(fl),
        };
        if let Err(mut fl) = compare_all("C02", net, case, &results, &colours, &wants[i]) {
            fl.message = format!("formula #{i} `{}`: {}", case.formulas[i], fl.message);
            return Verdict::Fail(fl);
        }
        all_results.push(results);
    }
    // README equivalences: pairs of formula indices that must evaluate to the same sets
    if let Some(pairs) = case.extra.get("pairs").and_then(|p| p.as_array()) {
        for p in pairs {
            let (a, b) = (p[0].as_u64().unwrap() as usize, p[1].as_u64().unwrap() as usize);
            if a >= fs.len() || b >= fs.len() {
                continue;
            }
            for (ra, rb) in all_results[a].iter().zip(&all_results[b]) {
                if ra.set != rb.set {
                    return Verdict::Fail(fail(
                        &format!("C02:readme-equivalence:{}", ra.name),
                        format!(
                            "{}: `{}` and `{}` are stated equivalent in README but evaluate to different sets",
                            ra.name, case.formulas[a], case.formulas[b]
                        ),
                        case,
                    ));
                }
            }
        }
    }
    let mut classes = net_classes(net);
    let f = &fs[0];
    classes.extend(formula_classes(f));
    let interesting = domain_subclasses(f, case, net, &mut classes);
    let nontrivial = f.has_wild_or_domain() && interesting;
    Verdict::Pass(CaseReport {
        nontrivial,
        key: case.key(),
        classes,
        sample: case.sample(),
    })
}

impl Property for C02 {
    type Raw = crate::scale::WithMid<RawSem>;
    fn id(&self) -> &'static str {
        "C02"
    }
    fn rule(&self) -> String {
        "random network x closed extended formula (wild-cards; domains on any quantifier, nested and repeated labels; full operator set incl. EW/AW) x context sets inside the unit set (empty / full / colour-independent / colour-dependent / empty for some colours only), compared point-wise with the explicit evaluator through the 4 extended entry points; plus, for a second generated body and a label, the three README equivalences (both sides through the tool, and each side against the evaluator). Deterministic stage: the same equivalences (plus directly stated expected sets) with a domain whose BDD has 2^11 nodes on a network of 22 frozen variables. Mid-size and benchmark-size networks: ~2.5 % of the random cases are generated 7-10-variable networks (up to ~64 parameter bits) and a deterministic stage runs 8 / 50 extended formulae (wild-cards everywhere; domains where one state variable is affordable) on 20 / 30 bundled models, with context sets that are unions of sub-spaces x parameter cubes, single points and their complements; these are decided by the reference symbolic evaluator (refsym.rs), which is calibrated against the explicit one on 1500 / 20000 small extended cases at the start of the run. Non-trivial: the main formula has a wild-card or domain and (a domain label set is empty for some but not all valid colours, or a quantified body does not mention its variable, or domains are nested).".into()
    }
    fn assumptions(&self) -> Vec<String> {
        vec![
            "same trusted base as C01".into(),
            "context sets are inside the unit set and depend on state and parameter variables only (documented preconditions)".into(),
            "emptiness of a domain is judged per colour, as the property text says".into(),
        ]
    }
    fn cases(&self, tier: Tier) -> u32 {
        tier.pick(6_000, 400_000)
    }
    fn strategy(&self, tier: Tier) -> BoxedStrategy<crate::scale::WithMid<RawSem>> {
        crate::scale::with_mid(raw_sem(tier.pick(3, 4), 2..=2, 5, tier.pick(14, 20)), tier.pick(39, 99), 1, tier.pick(600, 2500))
    }
    fn check_raw(&self, raw: &crate::scale::WithMid<RawSem>) -> Verdict {
        let raw = match raw {
            crate::scale::WithMid::Small(r) => r,
            crate::scale::WithMid::Mid(raw, ms) => return crate::scale::check_mid("C02", raw, *ms, FCfg::EXTENDED_WEAK),
        };
        let resolved = resolve_sem_with(raw, FCfg::EXTENDED_WEAK, |env, raws| {
            let main = gen::resolve_f(&raws[0], env);
            // a body open in `x` (at most two further quantifier levels inside)
            let mut inner_env_cfg = env.cfg;
            // (bounded by the nesting the explicit evaluator can afford on this network: states^depth <= 4096)
            inner_env_cfg.max_quant_depth = env.cfg.max_quant_depth.min(3);
            let inner_env = gen::FEnv {
                props: env.props,
                labels: env.labels,
                cfg: inner_env_cfg,
                binders: env.binders,
            };
            let mut scope = vec!["x".to_string()];
            let body = gen::resolve_f_in_scope(&raws[1], &inner_env, &mut scope);
            let d = env.labels[gen::idx((raw.extra_k as u16) << 14, env.labels.len())].clone();
            let mut out = vec![main];
            for (l, r) in readme_pairs(&body, "x", &d) {
                out.push(l);
                out.push(r);
            }
            out
        });
        match resolved {
            Err(r) => Verdict::Discard(r),
            Ok((mut case, fs, net)) => {
                case.extra = json!({"pairs": [[1, 2], [3, 4], [5, 6]]});
                check(&case, &net, &fs)
            }
        }
    }
    fn replay(&self, case: &Value) -> Verdict {
        if case.get("large_domain_pairs").is_some() {
            return match large_domain_case(case["large_domain_pairs"].as_u64().unwrap_or(11) as usize) {
                Ok(rep) => Verdict::Pass(rep),
                Err(f) => Verdict::Fail(f),
            };
        }
        if let Some(v) = crate::scale::replay_scale("C02", case) {
            return v;
        }
        replay_with(case, check)
    }
    fn extra_stages(&self, tier: Tier, seed: u64, stats: &mut Stats) -> Option<Failure> {
        // benchmark-size models, decided by the reference symbolic evaluator (calibrated first)
        crate::scale::calibrate(seed, tier.pick(1500, 20_000), FCfg::EXTENDED_WEAK, stats);
        let mut models: Vec<&str> = crate::scale::SCALE_MODELS_QUICK.to_vec();
        if tier == Tier::Thorough {
            models.extend(crate::scale::SCALE_MODELS_MORE);
        }
        if let Some(f) = crate::scale::bundled_scale_stage(
            "C02",
            &models,
            tier.pick(8, 50),
            seed,
            std::time::Duration::from_secs(tier.pick(5, 30)),
            FCfg::EXTENDED_WEAK,
            1,
            stats,
        ) {
            return Some(f);
        }
        // domains and wild-card sets with BDDs of thousands of nodes (no explicit evaluator at this
        // size: the README equivalences and a direct set-level expectation decide)
        let sizes = tier.pick(vec![11usize], vec![6, 9, 11, 12]);
        for pairs in &sizes {
            match large_domain_case(*pairs) {
                Ok(rep) => stats.add(rep),
                Err(f) => return Some(f),
            }
        }
        stats.stages.insert("large-domains".into(), json!({"pairs": sizes}));
        None
    }
}

/// README equivalences with a domain whose BDD has about 2^pairs nodes, on a network of 2*pairs
/// frozen variables (every state is a steady state, so EX/AX are the identity and the expected
/// sets can be stated directly).
fn large_domain_case(pairs: usize) -> Result<CaseReport, Failure> {
    use biodivine_hctl_model_checker::evaluation::LabelToSetMap;
    use biodivine_hctl_model_checker::mc_utils::get_extended_symbolic_graph;
    use biodivine_hctl_model_checker::model_checking::model_check_extended_formula_dirty;
    use biodivine_lib_param_bn::biodivine_std::traits::Set;
    use biodivine_lib_param_bn::BooleanNetwork;
    let n = 2 * pairs;
    let name = |i: usize| format!("v{i:02}");
    let aeon: String = (0..n).map(|i| format!("{0} -> {0}\n${0}: {0}\n", name(i))).collect();
    let case_json = json!({"large_domain_pairs": pairs});
    let fail = |class: &str, msg: String| Failure {
        class: class.to_string(),
        message: msg,
        case: case_json.clone(),
    };
    let bn = BooleanNetwork::try_from(aeon.as_str()).map_err(|e| fail("C02:harness", e))?;
    let g = get_extended_symbolic_graph(&bn, 1).map_err(|e| fail("C02:harness", e))?;
    let vars: Vec<_> = bn.variables().collect();
    let unit = g.mk_unit_colored_vertices();
    // d: disjunction of v_i & v_(i+pairs) (about 2^pairs BDD nodes); p: v00 or v01 false
    let mut d = g.mk_empty_colored_vertices();
    for i in 0..pairs {
        d = d.union(&unit.fix_network_variable(vars[i], true).fix_network_variable(vars[i + pairs], true));
    }
    let p = unit.fix_network_variable(vars[0], true).union(&unit.fix_network_variable(vars[1], false));
    let mut ctx: LabelToSetMap = LabelToSetMap::new();
    ctx.insert("d".into(), d.clone());
    ctx.insert("p".into(), p.clone());
    let run = |f: &str| -> Result<biodivine_lib_param_bn::symbolic_async_graph::GraphColoredVertices, Failure> {
        match guard(|| model_check_extended_formula_dirty(f, &g, &ctx)) {
            Ok(Ok(r)) => Ok(r),
            Ok(Err(e)) => Err(fail("C02:unexpected-error", format!("`{f}`: {e}"))),
            Err(pn) => Err(fail(&format!("C02:panic:{}", panic_site(&pn)), format!("`{f}`: {pn}"))),
        }
    };
    let d_subset_p = d.is_subset(&p);
    let d_meets_p = !d.intersect(&p).is_empty();
    // (formula with a domain, README-equivalent formula without, expected set)
    let checks: Vec<(&str, &str, biodivine_lib_param_bn::symbolic_async_graph::GraphColoredVertices)> = vec![
        ("!{x} in %d%: %p%", "!{x}: (%d% & %p%)", d.intersect(&p)),
        ("!{x} in %d%: AX {x}", "!{x}: (%d% & AX {x})", d.clone()),
        (
            "3{x} in %d%: (@{x}: AX %p%)",
            "3{x}: (@{x}: (%d% & AX %p%))",
            if d_meets_p { unit.clone() } else { g.mk_empty_colored_vertices() },
        ),
        (
            "V{x} in %d%: (@{x}: %p%)",
            "V{x}: (@{x}: (%d% => %p%))",
            if d_subset_p { unit.clone() } else { g.mk_empty_colored_vertices() },
        ),
        ("V{x} in %d%: (@{x}: %d%)", "V{x}: (@{x}: (%d% => %d%))", unit.clone()),
        ("V{x} in %d%: (%p% | ~{x})", "V{x}: ((@{x}: ~%d%) | %p% | ~{x})", p.union(&unit.minus(&d))),
    ];
    for (with_dom, without, want) in &checks {
        let a = run(with_dom)?;
        let b = run(without)?;
        if a != b {
            return Err(fail(
                "C02:readme-equivalence:large-domain",
                format!("domain with {} BDD nodes: `{with_dom}` and `{without}` evaluate to different sets ({} vs {} elements)", d.as_bdd().size(), a.approx_cardinality(), b.approx_cardinality()),
            ));
        }
        if &a != want {
            return Err(fail(
                "C02:mismatch:large-domain",
                format!("domain with {} BDD nodes: `{with_dom}` gives {} elements, expected {}", d.as_bdd().size(), a.approx_cardinality(), want.approx_cardinality()),
            ));
        }
    }
    Ok(CaseReport {
        nontrivial: true,
        key: hash_of(&("large-domain", pairs)),
        classes: vec![format!("large-domain:{}-nodes", d.as_bdd().size())],
        sample: json!({"network": format!("{n} frozen variables"), "domain_bdd_nodes": d.as_bdd().size(), "formulas": checks.iter().map(|c| c.0).collect::<Vec<_>>()}),
    })
}
