//! C17 — the command-line tool computes the same sets as the library.
//! Differential oracle: the `hctl-model-checker` binary built from /repo's working tree vs the
//! library API (archived sets, printed counts, exhaustive state listing, file order) and vs the
//! explicit-state semantics (counts); error inputs must yield a message and a normal exit.

use super::common::*;
use crate::ast::*;
use crate::engine::*;
use crate::gen::{self, FCfg};
use crate::model::Net;
use crate::props::c16::{context_names, read_zip};
use crate::render::render_min;
use crate::sem::*;
use biodivine_hctl_model_checker::generate_output::build_result_archive;
use biodivine_hctl_model_checker::load_inputs::load_bdd_bundle;
use biodivine_hctl_model_checker::mc_utils::get_extended_symbolic_graph;
use biodivine_hctl_model_checker::model_checking::*;
use biodivine_lib_param_bn::biodivine_std::traits::Set;
use biodivine_lib_param_bn::BooleanNetwork;
use proptest::prelude::*;
use serde_json::{json, Value};
use std::collections::BTreeSet;
use std::io::Write;
use std::process::Command;

pub struct C17;

pub fn bins_dir() -> String {
    std::env::var("VERIF_BINS").unwrap_or_else(|_| "/verif/target/repo/release".to_string())
}

fn strip_ansi(s: &str) -> String {
    let mut out = String::new();
    let mut chars = s.chars().peekable();
    while let Some(c) = chars.next() {
        if c == '\u{1b}' {
            // ESC [ ... letter
            for d in chars.by_ref() {
                if d.is_ascii_alphabetic() {
                    break;
                }
            }
        } else {
            out.push(c);
        }
    }
    out
}

#[derive(Debug)]
struct Block {
    formula: String,
    results: String,
    colours: String,
    states: String,
    listing: Vec<String>,
}

/// Parse the per-formula blocks of the tool's output (summary / with-progress / exhaustive).
fn parse_blocks(stdout: &str, exhaustive: bool) -> Result<Vec<Block>, String> {
    let text = strip_ansi(stdout);
    let lines: Vec<&str> = text.lines().collect();
    let mut blocks = vec![];
    let mut i = 0;
    while i < lines.len() {
        if let Some(f) = lines[i].strip_prefix("Formula: ") {
            let get = |j: usize, suffix: &str| -> Result<String, String> {
                lines
                    .get(j)
                    .and_then(|l| l.strip_suffix(suffix))
                    .map(|s| s.trim().to_string())
                    .ok_or_else(|| format!("line {j} after `Formula:` does not end with `{suffix}`: {:?}", lines.get(j)))
            };
            if !lines.get(i + 1).map(|l| l.starts_with("Time to model check:")).unwrap_or(false) {
                return Err(format!("no timing line after `{}`", lines[i]));
            }
            let results = get(i + 2, " results in total")?;
            let colours = get(i + 3, " unique colors")?;
            let states = get(i + 4, " unique states")?;
            if lines.get(i + 5) != Some(&"-----") {
                return Err("summary block not closed by -----".into());
            }
            let mut j = i + 6;
            let mut listing = vec![];
            if exhaustive {
                while j < lines.len() && lines[j] != "-----" {
                    listing.push(lines[j].trim().to_string());
                    j += 1;
                }
                j += 1;
            }
            blocks.push(Block {
                formula: f.to_string(),
                results,
                colours,
                states,
                listing,
            });
            i = j;
        } else {
            i += 1;
        }
    }
    Ok(blocks)
}

const PRINT_OPTIONS: [&str; 5] = ["summary", "no-print", "with-progress", "exhaustive", "default"];

fn check(case: &SemCase, net0: &Net, fs: &[F]) -> Verdict {
    let ex = &case.extra;
    let format = ex["format"].as_u64().unwrap_or(0);
    let print_opt = PRINT_OPTIONS[ex["print"].as_u64().unwrap_or(0) as usize % 5];
    let layout = ex["layout"].as_u64().unwrap_or(0);
    let fault = ex["fault"].as_str().unwrap_or("none").to_string();
    let dir = tempfile::tempdir().expect("tempdir");
    let path = |n: &str| dir.path().join(n).to_string_lossy().to_string();
    macro_rules! bad {
        ($class:expr, $($arg:tt)*) => {
            return Verdict::Fail(fail($class, format!($($arg)*), case))
        };
    }

    // ---- model file in one of the supported formats
    let (model_text, model_file, source) = match format % 3 {
        1 => match net0.bn.to_bnet(false) {
            Ok(t) => (t, "model.bnet", "bnet"),
            Err(_) => (net0.bn.to_string(), "model.aeon", "aeon"),
        },
        2 => (net0.bn.to_sbml(None), "model.sbml", "sbml"),
        _ => (case.aeon.clone(), "model.aeon", "aeon"),
    };
    let model_text = if fault == "garbage-model" { "this is ->> not a $model".to_string() } else { model_text };
    std::fs::write(path(model_file), &model_text).unwrap();
    // what the library makes of that file
    let bn = match BooleanNetwork::try_from_file(path(model_file)) {
        Ok(b) => Some(b),
        Err(_) => None,
    };

    // ---- formula file: comments, blank lines, surrounding blanks, CRLF
    let extended = fs.iter().any(|f| f.has_wild_or_domain());
    let mut formulas: Vec<String> = fs.iter().map(render_min).collect();
    if fault == "invalid-formula" {
        let i = layout as usize % formulas.len();
        formulas[i] = format!("{} &", formulas[i]);
    }
    if fault == "free-variable" {
        let i = layout as usize % formulas.len();
        formulas[i] = format!("({}) | {{unbound}}", formulas[i]);
    }
    let eol = if layout & 1 != 0 { "\r\n" } else { "\n" };
    // layout bit 5: comment lines are indented (surrounding whitespace applies to them as well: the
    // reader trims a line before it looks for `#`); bit 6: no blank after `#`, trailing blanks
    let cpre = if layout & 32 != 0 { " \t  " } else { "" };
    let (chash, cpost) = if layout & 64 != 0 { ("#", "  \t") } else { ("# ", "") };
    let mut file = String::new();
    if layout & 2 != 0 {
        file.push_str(&format!("{cpre}{chash}formulae for the test{cpost}{eol}"));
    }
    for (i, f) in formulas.iter().enumerate() {
        if layout & 4 != 0 && i > 0 {
            file.push_str(&format!("{eol}   {eol}{cpre}{chash} EF a{cpost}{eol}"));
        }
        let (pre, post) = if layout & 8 != 0 { ("  \t", " \t ") } else { ("", "") };
        file.push_str(&format!("{pre}{f}{post}{eol}"));
    }
    if layout & 16 != 0 {
        file.push_str(&format!("{eol}{cpre}{chash}trailing comment{cpost}"));
    }
    std::fs::write(path("formulae.txt"), &file).unwrap();

    // ---- context archive for extended formulae
    let depth = fs.iter().map(|f| f.quant_depth()).max().unwrap_or(0) as u16;
    let mut net = None;
    if let Some(bn) = &bn {
        match Net::from_bn(bn.clone(), case.aeon.clone(), depth) {
            Ok(n) if n.var_names == net0.var_names && n.p == net0.p => net = Some(n),
            Ok(_) => return Verdict::Discard("reformatted-network-differs"),
            Err(_) => return Verdict::Discard("reformatted-network-not-usable"),
        }
    }
    let mut args: Vec<String> = vec![path(model_file), path("formulae.txt"), "-o".into(), path("out/results.zip")];
    if print_opt != "default" {
        args.push("-p".into());
        args.push(print_opt.to_string());
    }
    let mut context = case.context.clone();
    if fault == "missing-label" {
        if let Some(k) = context.keys().next().cloned() {
            context.remove(&k);
        }
    }
    if extended || fault == "not-a-zip" || fault == "corrupt-bdd-entry" {
        if let Some(n) = &net {
            let sym = symbolic_context(n, &context);
            if let Err(e) = build_result_archive(sym, &path("ctx.zip"), &n.bn.to_string(), vec![]) {
                harness_error(&format!("cannot write the context archive: {e}"));
            }
        }
        if fault == "not-a-zip" {
            std::fs::write(path("ctx.zip"), "PK this is no archive").unwrap();
        }
        if fault == "corrupt-bdd-entry" {
            let f = std::fs::File::create(path("ctx.zip")).unwrap();
            let mut zw = zip::ZipWriter::new(f);
            for label in case.context.keys().map(|s| s.as_str()).chain(["extra"]) {
                zw.start_file(format!("{label}.bdd"), zip::write::FileOptions::default()).unwrap();
                let garbage = ["|1,2|", "garbage", "|x,0,0|1,1,1|", ""][layout as usize % 4];
                zw.write_all(garbage.as_bytes()).unwrap();
            }
            zw.finish().unwrap();
        }
        args.push("-e".into());
        args.push(path("ctx.zip"));
    }
    if fault == "missing-model-file" {
        args[0] = path("does-not-exist.aeon");
    }
    if fault == "missing-formula-file" {
        args[1] = path("does-not-exist.txt");
    }

    // ---- run the tool
    let bin = format!("{}/hctl-model-checker", bins_dir());
    let out = match Command::new(&bin).args(&args).output() {
        Ok(o) => o,
        Err(e) => harness_error(&format!("cannot run {bin}: {e}")),
    };
    let stdout = String::from_utf8_lossy(&out.stdout).to_string();
    let stderr = String::from_utf8_lossy(&out.stderr).to_string();
    let crashed = out.status.code() != Some(0) || stderr.contains("panicked at");
    let mut classes = vec![format!("source:{source}"), format!("print:{print_opt}"), format!("fault:{fault}")];

    // error inputs: a message, not a crash
    let missing_label_effective = fault == "missing-label" && extended && context.len() < case.context.len()
        && fs.iter().any(|f| { let (w, d) = f.labels(); w.iter().chain(d.iter()).any(|l| !context.contains_key(l)) });
    let is_error_input = matches!(
        fault.as_str(),
        "garbage-model" | "invalid-formula" | "free-variable" | "not-a-zip" | "corrupt-bdd-entry" | "missing-model-file" | "missing-formula-file"
    ) || missing_label_effective;
    if crashed {
        bad!(
            &format!("C17:crash:{}", if is_error_input { fault.as_str() } else { "valid-input" }),
            "the tool crashed (exit code {:?}) on {} input; stderr: {}",
            out.status.code(),
            if is_error_input { format!("`{fault}`") } else { "valid".into() },
            stderr.lines().take(3).collect::<Vec<_>>().join(" | ")
        );
    }
    if fault == "corrupt-bdd-entry" {
        // an unreadable entry of the context archive must not crash the tool; whether it is reported
        // depends on whether the entry is needed, which the property does not fix
        return Verdict::Pass(CaseReport {
            nontrivial: true,
            key: case.key(),
            classes,
            sample: json!({"fault": fault, "stdout_first_line": stdout.lines().next()}),
        });
    }
    if is_error_input {
        if stdout.trim().is_empty() {
            bad!("C17:no-message", "error input `{fault}`: the tool printed nothing");
        }
        if std::path::Path::new(&path("out/results.zip")).exists() {
            bad!("C17:archive-for-error-input", "error input `{fault}`: a result archive was written nevertheless");
        }
        return Verdict::Pass(CaseReport {
            nontrivial: true,
            key: case.key(),
            classes,
            sample: json!({"args": args.iter().skip(2).collect::<Vec<_>>(), "fault": fault, "stdout_first_line": stdout.lines().next()}),
        });
    }
    let net = match net {
        Some(n) => n,
        None => harness_error("valid case without a readable model"),
    };

    // ---- library results on a graph with the maximal nesting depth, formulae in file order
    let g = &net.graph;
    let sym = symbolic_context(&net, &context);
    let refs: Vec<&str> = formulas.iter().map(|s| s.as_str()).collect();
    let lib = if extended {
        call_ok!("C17", case, "model_check_multiple_extended_formulae_dirty", model_check_multiple_extended_formulae_dirty(refs.clone(), g, &sym))
    } else {
        call_ok!("C17", case, "model_check_multiple_formulae_dirty", model_check_multiple_formulae_dirty(refs.clone(), g))
    };

    // archived sets
    let entries = match read_zip(&path("out/results.zip")) {
        Ok(e) => e,
        Err(e) => bad!("C17:no-archive", "result archive not readable: {e}; stdout: {}", stdout.lines().take(3).collect::<Vec<_>>().join(" | ")),
    };
    let lines: Vec<&str> = entries.get("formulae.txt").map(|s| s.lines().collect()).unwrap_or_default();
    if lines != refs {
        bad!("C17:formula-order", "archived formula list {lines:?}, formula file (in order, trimmed, comments and blanks skipped) {refs:?}");
    }
    let bn2 = match BooleanNetwork::try_from(entries.get("model.aeon").map(|s| s.as_str()).unwrap_or("")) {
        Ok(b) => b,
        Err(e) => bad!("C17:archived-model-unreadable", "{e}"),
    };
    let g2 = match get_extended_symbolic_graph(&bn2, depth) {
        Ok(g) => g,
        Err(e) => bad!("C17:archived-model-unusable", "{e}"),
    };
    if context_names(g2.symbolic_context()) != context_names(g.symbolic_context()) {
        bad!("C17:archived-model-other-encoding", "graph rebuilt from the archived model has other symbolic variables");
    }
    let loaded = match guard(|| load_bdd_bundle(&path("out/results.zip"), g2.symbolic_context())) {
        Ok(Ok(m)) => m,
        other => bad!("C17:archive-not-loaded", "{:?}", other.map(|r| r.map(|m| m.len()))),
    };
    if loaded.len() != lib.len() {
        bad!("C17:archive-entries", "{} archived sets for {} formulae", loaded.len(), lib.len());
    }
    for (i, r) in lib.iter().enumerate() {
        match loaded.get(&format!("formula-{i}")) {
            Some(s) if s.as_bdd() == r.as_bdd() => {}
            _ => bad!("C17:archived-set-differs", "archived set formula-{i} differs from the library result for line {i} `{}`", refs[i]),
        }
    }

    // printed output
    if print_opt == "no-print" {
        if !stdout.trim().is_empty() {
            bad!("C17:no-print-prints", "with -p no-print the tool printed: {}", stdout.lines().next().unwrap_or(""));
        }
    } else {
        let blocks = match parse_blocks(&stdout, print_opt == "exhaustive") {
            Ok(b) => b,
            Err(e) => bad!("C17:output-shape", "cannot read the tool's output: {e}"),
        };
        if blocks.len() != lib.len() {
            bad!("C17:output-blocks", "{} result blocks printed for {} formulae", blocks.len(), lib.len());
        }
        let colours = sample_colours(&net, 4096);
        let all_colours = colours.len() == net.num_valid();
        let parsed = {
            let mut v = vec![];
            for t in &refs {
                match crate::refparse::parse(t, true) {
                    Ok(f) => v.push(f),
                    Err(_) => harness_error("case formula unreadable"),
                }
            }
            v
        };
        let explicit_ctx = normalise_context(&net, &context);
        for (i, (b, r)) in blocks.iter().zip(&lib).enumerate() {
            if b.formula != refs[i] {
                bad!("C17:formula-order", "block {i} is for `{}`, line {i} of the file is `{}`", b.formula, refs[i]);
            }
            let want = (
                format!("{}", r.approx_cardinality()),
                format!("{}", r.colors().approx_cardinality()),
                format!("{}", r.vertices().approx_cardinality()),
            );
            if (b.results.clone(), b.colours.clone(), b.states.clone()) != want {
                bad!(
                    "C17:printed-counts-differ-from-library",
                    "`{}`: printed {} / {} / {} (results / colours / states), library sets give {} / {} / {}",
                    refs[i], b.results, b.colours, b.states, want.0, want.1, want.2
                );
            }
            // against the explicit semantics
            let slices = &expected_many(&net, std::slice::from_ref(&parsed[i]), &explicit_ctx, &colours)[0];
            let states_union = slices.iter().fold(0u64, |a, s| a | s);
            if all_colours {
                let total: u64 = slices.iter().map(|s| s.count_ones() as u64).sum();
                let ncol = slices.iter().filter(|s| **s != 0).count();
                let explicit = (format!("{}", total as f64), format!("{}", ncol as f64), format!("{}", states_union.count_ones() as f64));
                if explicit != want {
                    bad!(
                        "C17:printed-counts-differ-from-semantics",
                        "`{}`: printed {} / {} / {}, explicit semantics gives {} / {} / {}",
                        refs[i], b.results, b.colours, b.states, explicit.0, explicit.1, explicit.2
                    );
                }
            }
            if print_opt == "exhaustive" {
                let mut expected: BTreeSet<String> = BTreeSet::new();
                // the listing is the state projection of the library set
                let proj = {
                    let mut u = 0u64;
                    for c in &colours {
                        u |= net.slice(r, *c, 0);
                    }
                    u
                };
                if all_colours && proj != states_union {
                    bad!("C17:mismatch", "`{}`: library state projection differs from the explicit semantics", refs[i]);
                }
                for s in 0..net.num_states() {
                    if (proj >> s) & 1 == 1 {
                        let line: String = (0..net.n)
                            .map(|v| format!("{}{} & ", if (s >> v) & 1 == 1 { "" } else { "~" }, net.var_names[v]))
                            .collect();
                        expected.insert(line.trim().to_string());
                    }
                }
                let got: BTreeSet<String> = b.listing.iter().cloned().collect();
                if all_colours && (got != expected || b.listing.len() != expected.len()) {
                    bad!("C17:exhaustive-listing", "`{}`: listed states {:?}, expected {:?}", refs[i], b.listing, expected);
                }
            }
        }
    }
    classes.extend(net_classes(&net));
    classes.push(format!("formulae={}", formulas.len()));
    if extended {
        classes.push("context-archive".into());
    }
    let nontrivial = formulas.len() >= 2
        && layout & 4 != 0
        && lib.iter().any(|r| !r.is_empty() && r != g.unit_colored_vertices());
    Verdict::Pass(CaseReport {
        nontrivial,
        key: case.key(),
        classes,
        sample: json!({"model_file": model_file, "formula_file": file, "print": print_opt, "stdout_head": stdout.lines().take(6).collect::<Vec<_>>()}),
    })
}

const FAULTS: [&str; 9] = [
    "garbage-model",
    "invalid-formula",
    "free-variable",
    "missing-label",
    "not-a-zip",
    "corrupt-bdd-entry",
    "missing-model-file",
    "missing-formula-file",
    "none",
];

impl Property for C17 {
    type Raw = (RawSem, bool, u8, u8, u8, Option<u8>);
    fn id(&self) -> &'static str {
        "C17"
    }
    fn rule(&self) -> String {
        "each case runs the hctl-model-checker binary built from /repo's working tree: random network written as aeon / bnet / sbml file x formula file with 1-3 closed formulae and a random layout (comment lines - first-column or indented, with or without a blank after `#` -, blank lines, surrounding blanks and tabs, LF or CRLF) x print option (default, summary, no-print, with-progress, exhaustive) x optional context archive (built with matching k) for extended formulae. Oracle: archived sets BDD-equal to model_check_multiple_*_dirty on get_extended_symbolic_graph(bn, max depth), in file order; printed result / colour / state counts equal those of the library sets and of the explicit semantics; exhaustive listing == state projection; error inputs (garbage model, invalid formula, free variable, missing label, non-zip archive, corrupt .bdd entry, missing files) give a message, exit code 0, no archive. Deterministic stage: exhaustive listings of up to 2^9 (thorough 2^11) states on ring networks, compared with the library's vertex iterator. Non-trivial: an error input, or >= 2 formulae separated by comment/blank lines with a non-trivial result.".into()
    }
    fn assumptions(&self) -> Vec<String> {
        vec![
            "the binary is rebuilt by ./check from /repo's working tree before the run".into(),
            "counts are compared as printed (f64 Display), for networks with <= 4096 valid colours also against the explicit semantics".into(),
        ]
    }
    fn cases(&self, tier: Tier) -> u32 {
        tier.pick(15_000, 300_000)
    }
    fn max_shrink_iters(&self) -> u32 {
        250
    }
    fn strategy(&self, _tier: Tier) -> BoxedStrategy<Self::Raw> {
        (
            raw_sem(3, 1..=3, 4, 10),
            prop::bool::weighted(0.35),
            any::<u8>(),
            any::<u8>(),
            any::<u8>(),
            prop::option::weighted(0.3, any::<u8>()),
        )
            .boxed()
    }
    fn check_raw(&self, raw: &Self::Raw) -> Verdict {
        let cfg = if raw.1 { FCfg::EXTENDED_WEAK } else { FCfg::PLAIN_WEAK };
        match resolve_sem(&raw.0, cfg) {
            Err(r) => Verdict::Discard(r),
            Ok((mut case, fs, net)) => {
                let fault = match raw.5 {
                    None => "none",
                    Some(x) => FAULTS[x as usize % 8],
                };
                case.extra = json!({"format": raw.2, "print": raw.3, "layout": raw.4, "fault": fault});
                let _ = gen::idx;
                check(&case, &net, &fs)
            }
        }
    }
    fn replay(&self, case: &Value) -> Verdict {
        if case.get("listing_vars").is_some() {
            return match large_listing_case(case["listing_vars"].as_u64().unwrap_or(7) as usize) {
                Ok(rep) => Verdict::Pass(rep),
                Err(f) => Verdict::Fail(f),
            };
        }
        replay_with(case, check)
    }
    fn extra_stages(&self, tier: Tier, _seed: u64, stats: &mut Stats) -> Option<Failure> {
        // exhaustive listings with hundreds of states (networks of 7-10 variables)
        let sizes = tier.pick(vec![7usize, 9], vec![7, 8, 9, 10, 11]);
        for n in &sizes {
            match large_listing_case(*n) {
                Ok(rep) => stats.add(rep),
                Err(f) => return Some(f),
            }
        }
        stats.stages.insert("large-listings".into(), json!({"variables": sizes}));
        None
    }
}

/// `-p exhaustive` on a ring network of `n` variables: the listed states must be exactly the state
/// projection of the library result (here obtained from the library's own vertex iterator).
fn large_listing_case(n: usize) -> Result<CaseReport, Failure> {
    let case_json = json!({"listing_vars": n});
    let fail = |class: &str, msg: String| Failure {
        class: class.to_string(),
        message: msg,
        case: case_json.clone(),
    };
    let name = |i: usize| format!("v{i:02}");
    // v0 is an input-like frozen variable, the others copy their predecessor: many steady states
    let mut aeon = format!("{0} -> {0}\n${0}: {0}\n", name(0));
    for i in 1..n {
        aeon.push_str(&format!("{0} -> {1}\n${1}: {0}\n", name(i - 1), name(i)));
    }
    let formulas = ["true", "v00", "EF (v01 & ~v02)", "!{x}: AX {x}", "AG (v00 | ~v03)"];
    let dir = tempfile::tempdir().expect("tempdir");
    let path = |f: &str| dir.path().join(f).to_string_lossy().to_string();
    std::fs::write(path("m.aeon"), &aeon).unwrap();
    std::fs::write(path("f.txt"), formulas.join("\n")).unwrap();
    let bin = format!("{}/hctl-model-checker", bins_dir());
    let out = Command::new(&bin)
        .args([path("m.aeon"), path("f.txt"), "-p".into(), "exhaustive".into()])
        .output()
        .unwrap_or_else(|e| harness_error(&format!("cannot run {bin}: {e}")));
    if out.status.code() != Some(0) {
        return Err(fail("C17:crash:valid-input", format!("exit code {:?} on a {n}-variable network", out.status.code())));
    }
    let stdout = String::from_utf8_lossy(&out.stdout).to_string();
    let blocks = parse_blocks(&stdout, true).map_err(|e| fail("C17:output-shape", e))?;
    if blocks.len() != formulas.len() {
        return Err(fail("C17:output-blocks", format!("{} blocks for {} formulae", blocks.len(), formulas.len())));
    }
    let bn = BooleanNetwork::try_from(aeon.as_str()).map_err(|e| fail("C17:harness", e))?;
    let g = get_extended_symbolic_graph(&bn, 1).map_err(|e| fail("C17:harness", e))?;
    let names: Vec<String> = bn.variables().map(|v| bn.get_variable_name(v).clone()).collect();
    let lib = match guard(|| model_check_multiple_formulae_dirty(formulas.to_vec(), &g)) {
        Ok(Ok(r)) => r,
        other => return Err(fail("C17:harness", format!("library evaluation failed: {:?}", other.map(|r| r.map(|v| v.len()))))),
    };
    let mut biggest = 0usize;
    for (i, (b, r)) in blocks.iter().zip(&lib).enumerate() {
        use biodivine_lib_param_bn::biodivine_std::bitvector::BitVector;
        let mut expected: BTreeSet<String> = BTreeSet::new();
        for state in r.vertices().materialize().iter() {
            let line: String = (0..names.len())
                .map(|v| format!("{}{} & ", if state.get(v) { "" } else { "~" }, names[v]))
                .collect();
            expected.insert(line.trim().to_string());
        }
        biggest = biggest.max(expected.len());
        let got: BTreeSet<String> = b.listing.iter().cloned().collect();
        if b.states != format!("{}", r.vertices().approx_cardinality()) {
            return Err(fail("C17:printed-counts-differ-from-library", format!("`{}`: printed {} states, library {}", formulas[i], b.states, r.vertices().approx_cardinality())));
        }
        if got != expected || b.listing.len() != expected.len() {
            let missing: Vec<&String> = expected.difference(&got).take(3).collect();
            return Err(fail(
                "C17:exhaustive-listing",
                format!(
                    "`{}` on a {n}-variable network: the library result has {} states, the tool lists {} lines ({} distinct); e.g. missing {:?}",
                    formulas[i], expected.len(), b.listing.len(), got.len(), missing
                ),
            ));
        }
    }
    Ok(CaseReport {
        nontrivial: biggest > 64,
        key: hash_of(&("listing", n)),
        classes: vec![format!("large-listing:{biggest}-states")],
        sample: json!({"network": format!("ring of {n} variables"), "formulas": formulas, "largest_listing": biggest}),
    })
}
