//! C03 — results never leave the graph's valid universe, and results of closed formulae do not
//! depend on the extra symbolic variables.  Invariants checked on every set returned by every
//! entry point, on networks whose unit set is a strict subset of all parameter valuations.

use super::common::*;
use crate::ast::F;
use crate::engine::*;
use crate::gen::FCfg;
use crate::model::{Net, PointReader};
use crate::sem::*;
use biodivine_lib_param_bn::biodivine_std::traits::Set;
use biodivine_lib_param_bn::symbolic_async_graph::SymbolicAsyncGraph;
use proptest::strategy::BoxedStrategy;
use serde_json::Value;

pub struct C03;

fn check(case: &SemCase, net: &Net, f: &F) -> Verdict {
    if !f.is_closed() {
        return Verdict::Discard("outside-C03-domain");
    }
    if !net.unit_is_strict() {
        return Verdict::Discard("unit-not-strict");
    }
    let text = &case.formulas[0];
    let sym = symbolic_context(net, &case.context);
    let mut results = vec![];
    if !f.has_wild_or_domain() {
        match run_plain("C03", net, case, text) {
            Ok(r) => results.extend(r),
            Err(fl) => return Verdict::Fail(fl),
        }
    }
    match run_extended("C03", net, case, text, &sym) {
        Ok(r) => results.extend(r),
        Err(fl) => return Verdict::Fail(fl),
    }
    let g = &net.graph;
    let unit = g.unit_colored_vertices();
    let canonical_graph = match SymbolicAsyncGraph::new(&net.bn) {
        Ok(g) => g,
        Err(_) => return Verdict::Discard("canonical-graph-unavailable"),
    };
    let canonical_ctx = g.symbolic_context().as_canonical_context();
    let canonical_reader = PointReader::new(&canonical_ctx, &net.param_names);
    let invalid = sample_invalid_colours(net, 32);
    let extras: std::collections::HashSet<_> =
        g.symbolic_context().all_extra_state_variables().iter().copied().collect();
    for r in &results {
        // (1) point-wise: no (state, invalid colour) pair, whatever the extra variables are
        for c in &invalid {
            let patterns: &[u64] = if r.sanitised { &[0] } else { &EXTRA_PATTERNS };
            for extra in patterns {
                let slice = if r.sanitised {
                    if r.set.as_bdd().num_vars() != canonical_ctx.bdd_variable_set().num_vars() {
                        return Verdict::Fail(fail(
                            &format!("C03:not-canonical:{}", r.name),
                            format!("{}: sanitised result is not over the canonical variable set", r.name),
                            case,
                        ));
                    }
                    net.slice_in(&canonical_reader, &r.set, *c, 0)
                } else {
                    net.slice(&r.set, *c, *extra)
                };
                if slice != 0 {
                    return Verdict::Fail(fail(
                        &format!("C03:invalid-colour:{}", r.name),
                        format!(
                            "{}: result contains state [{}] with colour [{}], which violates the regulation constraints",
                            r.name,
                            net.state_to_string(slice.trailing_zeros() as usize),
                            net.colour_to_string(*c)
                        ),
                        case,
                    ));
                }
            }
        }
        // (2) set-level: subset of the unit set, counts bounded by the graph's
        let (inside, unit_card, unit_colours) = if r.sanitised {
            let u = canonical_graph.unit_colored_vertices();
            (
                r.set.is_subset(u),
                u.approx_cardinality(),
                canonical_graph.unit_colors().approx_cardinality(),
            )
        } else {
            (
                r.set.is_subset(unit),
                unit.approx_cardinality(),
                g.unit_colors().approx_cardinality(),
            )
        };
        if !inside {
            return Verdict::Fail(fail(
                &format!("C03:not-subset-of-unit:{}", r.name),
                format!("{}: returned set is not a subset of the graph's unit set", r.name),
                case,
            ));
        }
        if r.set.approx_cardinality() > unit_card + 0.5
            || r.set.colors().approx_cardinality() > unit_colours + 0.5
        {
            return Verdict::Fail(fail(
                &format!("C03:count:{}", r.name),
                format!(
                    "{}: {} results / {} colours reported, the graph has {} / {}",
                    r.name,
                    r.set.approx_cardinality(),
                    r.set.colors().approx_cardinality(),
                    unit_card,
                    unit_colours
                ),
                case,
            ));
        }
        // (3) closed formula: no dependence on the extra variables
        if !r.sanitised {
            let support = r.set.as_bdd().support_set();
            if let Some(v) = support.iter().find(|v| extras.contains(v)) {
                return Verdict::Fail(fail(
                    &format!("C03:depends-on-extra-variables:{}", r.name),
                    format!(
                        "{}: result of a closed formula depends on symbolic variable {}",
                        r.name,
                        g.symbolic_context().bdd_variable_set().name_of(*v)
                    ),
                    case,
                ));
            }
        }
    }
    // non-trivial: ignoring colour validity, some (state, invalid colour) pair would satisfy the formula
    let ghost = expected_many(net, std::slice::from_ref(f), &case.context, &invalid);
    let nontrivial = ghost[0].iter().any(|s| *s != 0);
    let mut classes = net_classes(net);
    classes.extend(formula_classes(f));
    classes.push(if f.has_wild_or_domain() { "extended".into() } else { "plain".into() });
    Verdict::Pass(CaseReport {
        nontrivial,
        key: case.key(),
        classes,
        sample: case.sample(),
    })
}

impl Property for C03 {
    type Raw = (RawSem, bool);
    fn id(&self) -> &'static str {
        "C03"
    }
    fn rule(&self) -> String {
        "random network whose unit set excludes >= 1 parameter valuation x closed plain or extended formula (context sets inside the unit set); every set returned by every entry point (8 plain + 4 extended) is checked point-wise on up to 32 invalid colours x all states x three settings of the extra variables, for inclusion in the unit set, for result/colour counts not exceeding the graph's, and (raw results) for a BDD support free of extra variables. Deterministic stage: 12 / 15 networks in which a completely unknown function of arity 5-8 (32-256 parameter bits) has one or two constrained regulations (the unit set misses a fraction of 2^-16 .. 2^-128 of the valuations) x 20 / 70 formulae: every result is a subset of the unit set (exact BDD inclusion) and equal to the reference symbolic evaluator's. Non-trivial: the explicit model built for an invalid colour satisfies the formula in some state, i.e. a missing confinement would be observable.".into()
    }
    fn assumptions(&self) -> Vec<String> {
        vec![
            "same trusted base as C01; BDD subset / cardinality / support operations of lib-bdd are trusted".into(),
            "context sets are inside the unit set and free of extra variables (documented preconditions)".into(),
        ]
    }
    fn cases(&self, tier: Tier) -> u32 {
        tier.pick(40_000, 1_000_000)
    }
    fn strategy(&self, tier: Tier) -> BoxedStrategy<Self::Raw> {
        use proptest::prelude::*;
        (raw_sem(tier.pick(3, 4), 1..=1, 5, tier.pick(16, 24)), any::<bool>()).boxed()
    }
    fn check_raw(&self, raw: &Self::Raw) -> Verdict {
        let cfg = if raw.1 { FCfg::EXTENDED_WEAK } else { FCfg::PLAIN_WEAK };
        match resolve_sem(&raw.0, cfg) {
            Err(r) => Verdict::Discard(r),
            Ok((case, fs, net)) => check(&case, &net, &fs[0]),
        }
    }
    fn replay(&self, case: &Value) -> Verdict {
        if case.get("scale").is_some() {
            return match serde_json::from_value::<crate::scale::ScaleCase>(case.clone()) {
                Ok(c) => check_wide(&c, std::time::Duration::from_secs(600)),
                Err(_) => Verdict::Discard("unreadable-case"),
            };
        }
        replay_with(case, |case, net, fs| check(case, net, &fs[0]))
    }
    fn extra_stages(&self, tier: Tier, seed: u64, stats: &mut Stats) -> Option<Failure> {
        // unknown functions of arity 5-8 (32-256 parameter bits) with one constrained regulation: the
        // constraints exclude a fraction of 2^-16 .. 2^-128 of the parametrisations
        crate::scale::calibrate(seed, tier.pick(1000, 10_000), FCfg::PLAIN_WEAK, stats);
        let arities: Vec<usize> = tier.pick(vec![5, 6, 7, 8], vec![4, 5, 6, 7, 8]);
        let per = tier.pick(10, 60);
        let mut cases = vec![];
        for (j, k) in arities.iter().enumerate() {
            for kind in 0..3 {
                let aeon = wide_function_aeon(*k, kind);
                let Ok(bn) = biodivine_lib_param_bn::BooleanNetwork::try_from(aeon.as_str()) else {
                    harness_error(&format!("wide-function network not readable:\n{aeon}"));
                };
                let fixed = ["(~t)", "t", "(t | (~t))", "(AX t)", "(r1 => r1)", "(3{x}: (@{x}: (~t)))", "(AG (r1 | (~r1)))", "(EF (~t))", "((~t) AW r1)", "(V{x}: ((~t) | {x}))"];
                let raws = crate::bundled::sample_stream(&crate::gen::raw_f_weighted(4, 10, 1), mix(seed, 0xc03 + (j * 3 + kind) as u64), per);
                let mut texts: Vec<String> = fixed.iter().map(|s| s.to_string()).collect();
                texts.extend(raws.iter().map(|r| crate::scale::scale_formula(r, &bn, FCfg::PLAIN_WEAK, 1, false).canon()));
                for t in texts {
                    let f = crate::refparse::parse(&t, false).expect("own rendering");
                    cases.push(crate::scale::ScaleCase {
                        scale: true,
                        aeon: Some(aeon.clone()),
                        model: None,
                        k: f.quant_depth() as u16,
                        formula: t,
                        fast: false,
                        context: Default::default(),
                    });
                }
            }
        }
        let failure: std::sync::Mutex<Option<Failure>> = std::sync::Mutex::new(None);
        let reports: std::sync::Mutex<Vec<CaseReport>> = std::sync::Mutex::new(vec![]);
        let skipped = std::sync::atomic::AtomicUsize::new(0);
        let next = std::sync::atomic::AtomicUsize::new(0);
        let budget = std::time::Duration::from_secs(tier.pick(4, 30));
        std::thread::scope(|scope| {
            for _ in 0..16 {
                scope.spawn(|| loop {
                    let i = next.fetch_add(1, std::sync::atomic::Ordering::SeqCst);
                    if i >= cases.len() || failure.lock().unwrap().is_some() {
                        return;
                    }
                    match guard(|| check_wide(&cases[i], budget)) {
                        Ok(Verdict::Fail(fl)) => {
                            let fl = crate::scale::shrink_scale_with(fl, &|c| check_wide(c, budget));
                            failure.lock().unwrap().get_or_insert(fl);
                            return;
                        }
                        Ok(Verdict::Pass(mut rep)) => {
                            rep.classes.push("wide-unknown-function".into());
                            reports.lock().unwrap().push(rep)
                        }
                        Ok(Verdict::Discard(_)) => {
                            skipped.fetch_add(1, std::sync::atomic::Ordering::SeqCst);
                        }
                        Err(p) => harness_error(&format!("panic in the harness on a wide-function network: {p}")),
                    }
                });
            }
        });
        let reports = reports.into_inner().unwrap();
        stats.stages.insert(
            "wide-unknown-functions".into(),
            serde_json::json!({"arities": arities, "networks": arities.len() * 3, "cases": reports.len(), "skipped_reference_budget": skipped.into_inner(), "nontrivial": reports.iter().filter(|r| r.nontrivial).count()}),
        );
        for r in reports {
            stats.add(r);
        }
        failure.into_inner().unwrap()
    }
}

/// `r1..rk` (frozen) regulate `t`, whose update function is completely unknown; kind 0: `r1` is
/// essential, kind 1: `r1` is activating (monotone), kind 2: `r1` essential and `r2` inhibiting.
/// Everything else unconstrained: the unit set misses only a tiny fraction of the 2^(2^k) colours.
pub fn wide_function_aeon(k: usize, kind: usize) -> String {
    let mut lines = vec![];
    for i in 1..=k {
        let arrow = match (kind, i) {
            (0, 1) => "-?",
            (1, 1) => "->?",
            (2, 1) => "-?",
            (2, 2) => "-|?",
            _ => "-??",
        };
        lines.push(format!("r{i} {arrow} t"));
        lines.push(format!("r{i} -> r{i}"));
        lines.push(format!("$r{i}: r{i}"));
    }
    lines.join("\n")
}

/// Whole-set check on a network beyond the explicit evaluator: every result is inside the unit set
/// (raw results in the graph's context, sanitised ones in the canonical context) and equal to the
/// reference symbolic evaluator's result, which is confined to the unit set by construction.
fn check_wide(case: &crate::scale::ScaleCase, budget: std::time::Duration) -> Verdict {
    use biodivine_hctl_model_checker::model_checking::{model_check_formula, model_check_formula_dirty};
    crate::scale::check_scale_with("C03", case, budget, std::sync::Arc::new(|graph: &SymbolicAsyncGraph, text: &str, reference: &biodivine_lib_param_bn::symbolic_async_graph::GraphColoredVertices| {
        let unit = graph.unit_colored_vertices();
        if !reference.is_subset(unit) {
            harness_error("reference symbolic evaluator left the unit set");
        }
        let dirty = model_check_formula_dirty(text, graph).ok()?;
        if !dirty.is_subset(unit) {
            return Some(("outside-unit:model_check_formula_dirty".to_string(), format!("`{text}`: the raw result is not a subset of the unit set ({} elements outside)", dirty.minus(unit).exact_cardinality())));
        }
        let clean = model_check_formula(text, graph).ok()?;
        let canonical = graph.symbolic_context().as_canonical_context();
        let unit_c = canonical.transfer_from(unit.as_bdd(), graph.symbolic_context())?;
        if !clean.as_bdd().and_not(&unit_c).is_false() {
            return Some(("outside-unit:model_check_formula".to_string(), format!("`{text}`: the sanitised result is not a subset of the unit set")));
        }
        None
    }))
}
