//! C07 — preprocessing validates binding and renames variables without changing meaning.
//! Oracles: independent scope checker (accept / reject); on accept: output alpha-equivalent to the
//! input, quantifier names a function of nesting depth (distinct per depth, count == max depth),
//! idempotence.

use crate::alpha::{alpha_eq_literal_free, scope_errors};
use crate::ast::*;
use crate::engine::*;
use crate::gen::{self, FCfg, FEnv, RawF};
use crate::props::c06::PLACEHOLDER_CTX;
use biodivine_hctl_model_checker::mc_utils::collect_unique_hctl_vars;
use biodivine_hctl_model_checker::preprocessing::utils::validate_props_and_rename_vars;
use proptest::prelude::*;
use serde_json::{json, Value};
use std::collections::BTreeMap;

pub struct C07;

/// binder names including the internal ones in permuted order
pub const BINDERS_C07: [&str; 8] = ["xx", "x", "xxx", "y", "z", "xxxx", "w", "x1"];

fn cfail(class: &str, f: &F, message: String) -> Failure {
    Failure {
        class: class.to_string(),
        message,
        case: json!({"formula": f}),
    }
}

/// Inject one invalidity at the position selected by `pos` (if such a position exists).
pub fn inject(f: &F, kind: u8, pos: u16) -> Option<F> {
    inject_named(f, kind, pos, "no_such_variable")
}

/// `unknown`: the proposition name used for the "unknown proposition" invalidity.
pub fn inject_named(f: &F, kind: u8, pos: u16, unknown: &str) -> Option<F> {
    // count candidate positions, then rebuild with the chosen one changed
    fn walk(f: &F, kind: u8, target: &mut i64, scope: &mut Vec<String>, unknown: &str) -> F {
        let hit = |target: &mut i64| {
            *target -= 1;
            *target == -1
        };
        match f {
            F::Var(v) => {
                if kind == 0 && hit(target) {
                    return F::Var("free_v".into());
                }
                F::Var(v.clone())
            }
            F::Prop(p) => {
                if kind == 3 && hit(target) {
                    return F::Prop(unknown.to_string());
                }
                F::Prop(p.clone())
            }
            F::Const(_) | F::Wild(_) => f.clone(),
            F::Un(op, a) => F::Un(*op, Box::new(walk(a, kind, target, scope, unknown))),
            F::Bin(op, a, b) => F::Bin(
                *op,
                Box::new(walk(a, kind, target, scope, unknown)),
                Box::new(walk(b, kind, target, scope, unknown)),
            ),
            F::Hyb(HybOp::Jump, v, d, a) => {
                let v = if kind == 1 && hit(target) { "free_j".to_string() } else { v.clone() };
                F::Hyb(HybOp::Jump, v, d.clone(), Box::new(walk(a, kind, target, scope, unknown)))
            }
            F::Hyb(op, v, d, a) => {
                // re-quantification: an inner binder takes the name of an enclosing one; its own
                // occurrences are renamed with it, so that the only defect is the re-quantification
                if kind == 2 && !scope.is_empty() && hit(target) {
                    let outer = scope[0].clone();
                    fn rename(f: &F, from: &str, to: &str) -> F {
                        match f {
                            F::Var(x) if x == from => F::Var(to.to_string()),
                            F::Hyb(HybOp::Jump, x, d, a) => F::Hyb(
                                HybOp::Jump,
                                if x == from { to.to_string() } else { x.clone() },
                                d.clone(),
                                Box::new(rename(a, from, to)),
                            ),
                            F::Hyb(op, x, d, a) if x != from => {
                                F::Hyb(*op, x.clone(), d.clone(), Box::new(rename(a, from, to)))
                            }
                            F::Un(op, a) => F::Un(*op, Box::new(rename(a, from, to))),
                            F::Bin(op, a, b) => {
                                F::Bin(*op, Box::new(rename(a, from, to)), Box::new(rename(b, from, to)))
                            }
                            other => other.clone(),
                        }
                    }
                    let body = rename(a, v, &outer);
                    return F::Hyb(*op, outer, d.clone(), Box::new(body));
                }
                scope.push(v.clone());
                let body = walk(a, kind, target, scope, unknown);
                scope.pop();
                F::Hyb(*op, v.clone(), d.clone(), Box::new(body))
            }
        }
    }
    // number of candidates
    let mut counter = 0i64;
    {
        let mut probe = i64::MAX / 2;
        let start = probe;
        let _ = walk(f, kind, &mut probe, &mut vec![], unknown);
        counter += start - probe;
    }
    if counter == 0 {
        return None;
    }
    let mut target = gen::idx(pos, counter as usize) as i64;
    Some(walk(f, kind, &mut target, &mut vec![], unknown))
}

/// quantifier names by nesting depth in a tree; Err if one depth carries two names
fn names_by_depth(f: &F) -> Result<BTreeMap<usize, String>, String> {
    fn rec(f: &F, depth: usize, out: &mut BTreeMap<usize, String>) -> Result<(), String> {
        match f {
            F::Hyb(op, v, _, a) if op.is_quantifier() => {
                let d = depth + 1;
                if let Some(prev) = out.get(&d) {
                    if prev != v {
                        return Err(format!("quantifiers at nesting depth {d} are named `{prev}` and `{v}`"));
                    }
                } else {
                    out.insert(d, v.clone());
                }
                rec(a, d, out)
            }
            _ => {
                for c in f.children() {
                    rec(c, depth, out)?;
                }
                Ok(())
            }
        }
    }
    let mut out = BTreeMap::new();
    rec(f, 0, &mut out)?;
    Ok(out)
}

pub fn check_formula(f: &F, injected: Option<&'static str>) -> Verdict {
    let known = |p: &str| PLACEHOLDER_CTX.with(|ctx| ctx.find_network_variable(p).is_some());
    let errors = scope_errors(f, &known);
    let tree = to_tree(f);
    let res = PLACEHOLDER_CTX.with(|ctx| guard(|| validate_props_and_rename_vars(tree.clone(), ctx)));
    let res = match res {
        Ok(r) => r,
        Err(p) => {
            return Verdict::Fail(cfail(
                &format!("C07:panic:{}", panic_site(&p)),
                f,
                format!("validate_props_and_rename_vars panicked: {p}"),
            ))
        }
    };
    match (&res, errors.is_empty()) {
        (Ok(out), false) => {
            return Verdict::Fail(cfail(
                "C07:accepts-invalid",
                f,
                format!("`{}` is accepted (as `{}`) although {:?}", f.canon(), out.as_str(), errors),
            ))
        }
        (Err(e), true) => {
            return Verdict::Fail(cfail(
                "C07:rejects-valid",
                f,
                format!("`{}` is rejected ({e}) although every variable is bound once and every proposition is known", f.canon()),
            ))
        }
        _ => {}
    }
    let mut classes = vec![format!("quantifiers={}", f.count(&|g| matches!(g, F::Hyb(op, ..) if op.is_quantifier())).min(6))];
    if let Ok(out) = &res {
        let g = from_tree(out);
        if let Err(m) = tree_consistent(out) {
            return Verdict::Fail(cfail("C07:inconsistent-node", f, m));
        }
        if !alpha_eq_literal_free(f, &g) {
            return Verdict::Fail(cfail(
                "C07:not-alpha-equivalent",
                f,
                format!("`{}` was renamed to `{}`, which is not alpha-equivalent", f.canon(), g.canon()),
            ));
        }
        let names = match names_by_depth(&g) {
            Ok(n) => n,
            Err(m) => return Verdict::Fail(cfail("C07:name-not-by-depth", f, format!("`{}`: {m}", g.canon()))),
        };
        let distinct: std::collections::BTreeSet<&String> = names.values().collect();
        let max_depth = f.quant_depth();
        let unique = collect_unique_hctl_vars(out.clone()).len();
        if distinct.len() != names.len() || names.len() != max_depth || unique != max_depth {
            return Verdict::Fail(cfail(
                "C07:name-count",
                f,
                format!(
                    "`{}`: maximal quantifier nesting depth {max_depth}, names by depth {names:?}, collect_unique_hctl_vars = {unique}",
                    g.canon()
                ),
            ));
        }
        let again = PLACEHOLDER_CTX.with(|ctx| guard(|| validate_props_and_rename_vars(out.clone(), ctx)));
        match again {
            Ok(Ok(t2)) if &t2 == out => {}
            other => {
                return Verdict::Fail(cfail(
                    "C07:not-idempotent",
                    f,
                    format!("preprocessing `{}` again gives {:?}", out.as_str(), other.map(|r| r.map(|t| t.formula_str))),
                ))
            }
        }
        classes.push("accepted".into());
        if f.has(&|g| matches!(g, F::Hyb(HybOp::Jump, ..))) {
            classes.push("has-jump".into());
        }
    } else {
        classes.push(format!("rejected:{}", match &errors[0] {
            crate::alpha::ScopeError::FreeVariable(_) => "free-variable",
            crate::alpha::ScopeError::FreeJumpTarget(_) => "free-jump-target",
            crate::alpha::ScopeError::Requantified(_) => "re-quantified",
            crate::alpha::ScopeError::UnknownProposition(_) => "unknown-proposition",
        }));
    }
    if let Some(i) = injected {
        classes.push(format!("injected:{i}"));
    }
    let quantifiers = f.count(&|g| matches!(g, F::Hyb(op, ..) if op.is_quantifier()));
    Verdict::Pass(CaseReport {
        nontrivial: quantifiers >= 2 || !errors.is_empty(),
        key: hash_of(f),
        classes,
        sample: json!({"formula": f.canon(), "verdict": if errors.is_empty() { "accept".to_string() } else { format!("{:?}", errors) }}),
    })
}

fn skeletons(max_nodes: usize) -> Vec<Vec<F>> {
    let atoms = vec![F::prop("a"), F::prop("unknown_p"), F::var("x"), F::var("y")];
    let mut by_size: Vec<Vec<F>> = vec![vec![], atoms];
    for n in 2..=max_nodes {
        let mut out = vec![];
        for a in &by_size[n - 1] {
            for op in [HybOp::Bind, HybOp::Jump, HybOp::Forall] {
                for v in ["x", "y"] {
                    out.push(F::hyb(op, v, None, a.clone()));
                }
            }
        }
        for left in 1..n - 1 {
            let right = n - 1 - left;
            for a in &by_size[left] {
                for b in &by_size[right] {
                    out.push(F::and(a.clone(), b.clone()));
                }
            }
        }
        by_size.push(out);
    }
    by_size
}

impl Property for C07 {
    type Raw = (RawF, Option<(u8, u16)>);
    fn id(&self) -> &'static str {
        "C07"
    }
    fn rule(&self) -> String {
        "stage A: ALL formulae with <= 6 nodes over atoms {a, unknown_p, {x}, {y}}, '&' and bind/jump/forall over {x,y} (every binder / variable / jump skeleton of that size); stage B: random closed formulae over arbitrary binder names (incl. x/xx/xxx in permuted order, sibling reuse, jumps anywhere, domains), optionally with one injected invalidity (free variable, free jump target, re-quantification inside the own scope, unknown proposition). Oracle: independent scope checker for accept/reject; accepted output alpha-equivalent to the input, one name per nesting depth, distinct across depths, count == max depth == collect_unique_hctl_vars, idempotent. Non-trivial: >= 2 quantifiers or an invalid input.".into()
    }
    fn assumptions(&self) -> Vec<String> {
        vec!["propositions are validated against a placeholder network containing the generator's name pool".into()]
    }
    fn cases(&self, tier: Tier) -> u32 {
        tier.pick(150_000, 3_000_000)
    }
    fn strategy(&self, _tier: Tier) -> BoxedStrategy<Self::Raw> {
        (
            gen::raw_f(6, 24),
            prop::option::weighted(0.4, (0..4u8, any::<u16>())),
        )
            .boxed()
    }
    fn check_raw(&self, raw: &Self::Raw) -> Verdict {
        let props: Vec<String> = gen::VAR_NAMES.iter().map(|s| s.to_string()).collect();
        let labels: Vec<String> = gen::LABELS.iter().map(|s| s.to_string()).collect();
        let env = FEnv {
            props: &props,
            labels: &labels,
            cfg: FCfg { max_quant_depth: 12, ..FCfg::EXTENDED_WEAK },
            binders: &BINDERS_C07,
        };
        let f = gen::resolve_f(&raw.0, &env);
        match raw.1 {
            None => check_formula(&f, None),
            Some((kind, pos)) => match inject(&f, kind, pos) {
                Some(g) => check_formula(
                    &g,
                    Some(["free-variable", "free-jump-target", "re-quantification", "unknown-proposition"][kind as usize % 4]),
                ),
                None => check_formula(&f, None),
            },
        }
    }
    fn replay(&self, case: &Value) -> Verdict {
        match serde_json::from_value::<F>(case["formula"].clone()) {
            Ok(f) => check_formula(&f, None),
            Err(_) => Verdict::Discard("unreadable-case"),
        }
    }
    fn extra_stages(&self, _tier: Tier, _seed: u64, stats: &mut Stats) -> Option<Failure> {
        let mut count = 0u64;
        let mut nontrivial = 0u64;
        for fs in skeletons(6) {
            for f in &fs {
                count += 1;
                match check_formula(f, None) {
                    Verdict::Fail(fl) => return Some(fl),
                    Verdict::Pass(rep) => {
                        if rep.nontrivial {
                            nontrivial += 1;
                        }
                    }
                    Verdict::Discard(_) => {}
                }
            }
        }
        stats.evaluations += count;
        stats.nontrivial += nontrivial;
        stats.distinct_by_construction += nontrivial;
        stats.exhaustive = true;
        stats.stages.insert("skeletons".into(), json!({"max_nodes": 6, "formulae": count}));
        None
    }
}
