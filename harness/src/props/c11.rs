//! C11 — temporal operators obey their fixed-point laws on models of any size.
//! Argument sets are supplied as wild-cards.  Oracles: unfolding equations, A/E dualities,
//! monotonicity (algebraic, on the tool's own results), and lib-param-bn: EF = reach_backward,
//! AG = trap_forward, EU = backward reachability from T inside S u T, EX = pre u (S n steady);
//! extremality of EG / AF / AU by reference fixed-point iterations written here from `pre` only.

use crate::bundled::*;
use crate::engine::*;
use crate::gen::{self, RawNet};
use biodivine_hctl_model_checker::evaluation::LabelToSetMap;
use biodivine_hctl_model_checker::model_checking::model_check_extended_formula_dirty;
use biodivine_lib_param_bn::biodivine_std::traits::Set;
use biodivine_lib_param_bn::symbolic_async_graph::reachability::Reachability;
use biodivine_lib_param_bn::symbolic_async_graph::{GraphColoredVertices, SymbolicAsyncGraph};
use biodivine_lib_param_bn::BooleanNetwork;
use proptest::prelude::*;
use serde::{Deserialize, Serialize};
use serde_json::{json, Value};
use std::collections::HashMap;

pub struct C11;

/// indices into `bundled::MODELS` on which the complete law set is affordable (measured): the others
/// get the laws of EX, AX, EF, AG, EU, AW only
pub const FULL_LAWS_ON: [usize; 4] = [0, 2, 4, 7];

#[derive(Clone, Debug, Serialize, Deserialize, Hash)]
pub struct BigCase {
    /// either aeon text of a generated network or the index of a bundled model
    pub aeon: Option<String>,
    pub bundled: Option<usize>,
    pub s: BigSet,
    pub t: BigSet,
    pub x: BigSet,
    /// only the laws of the saturation-based / one-step operators (EX, AX, EF, AG, EU, AW): used on
    /// bundled models where the classical fixed-point iterations (EG, AF, AU, EW) take minutes
    #[serde(default)]
    pub light: bool,
}

type Gcv = GraphColoredVertices;

struct Laws<'a> {
    g: &'a SymbolicAsyncGraph,
    unit: Gcv,
    steady: Gcv,
    ctx: LabelToSetMap,
    case: &'a BigCase,
}

fn bfail(class: &str, case: &BigCase, message: String) -> Failure {
    Failure {
        class: class.to_string(),
        message,
        case: serde_json::to_value(case).unwrap(),
    }
}

impl Laws<'_> {
    fn tool(&self, formula: &str) -> Result<Gcv, Failure> {
        match guard(|| model_check_extended_formula_dirty(formula, self.g, &self.ctx)) {
            Err(p) => Err(bfail(&format!("C11:panic:{}", panic_site(&p)), self.case, format!("`{formula}` panicked: {p}"))),
            Ok(Err(e)) => Err(bfail("C11:unexpected-error", self.case, format!("`{formula}`: Err({e})"))),
            Ok(Ok(r)) => Ok(r),
        }
    }
    fn neg(&self, a: &Gcv) -> Gcv {
        self.unit.minus(a)
    }
    /// reference EX from lib-param-bn's `pre`, with self-loops on states that have no successor
    fn ex(&self, a: &Gcv) -> Gcv {
        self.g.pre(a).union(&a.intersect(&self.steady))
    }
    fn ax(&self, a: &Gcv) -> Gcv {
        self.neg(&self.ex(&self.neg(a)))
    }
    fn expect_eq(&self, law: &str, what: &str, a: &Gcv, b: &Gcv) -> Result<(), Failure> {
        if a != b {
            return Err(bfail(&format!("C11:{law}"), self.case, format!("{what}: the two sides differ ({} vs {} elements)", a.approx_cardinality(), b.approx_cardinality())));
        }
        Ok(())
    }
    fn expect_sub(&self, law: &str, what: &str, a: &Gcv, b: &Gcv) -> Result<(), Failure> {
        if !a.is_subset(b) {
            return Err(bfail(&format!("C11:{law}"), self.case, format!("{what}: not monotone")));
        }
        Ok(())
    }
}

fn build_bn(case: &BigCase) -> Result<(String, BooleanNetwork), &'static str> {
    if let Some(i) = case.bundled {
        load_model(i).map_err(|_| "bundled-model-not-loadable")
    } else if let Some(a) = &case.aeon {
        BooleanNetwork::try_from(a.as_str())
            .map(|bn| ("generated".to_string(), bn))
            .map_err(|_| "aeon-not-parsed")
    } else {
        Err("unreadable-case")
    }
}

fn check(case: &BigCase) -> Verdict {
    let (name, bn) = match build_bn(case) {
        Ok(x) => x,
        Err(r) => return Verdict::Discard(r),
    };
    let g = match graph_for(&bn, 0) {
        Ok(g) => g,
        Err(_) => return Verdict::Discard("constraints-unsatisfiable"),
    };
    let unit = g.mk_unit_colored_vertices();
    let s = build_big_set(&g, &case.s);
    let t = build_big_set(&g, &case.t);
    let x = build_big_set(&g, &case.x);
    let s2 = s.union(&x);
    let t2 = t.union(&x);
    let mut ctx: LabelToSetMap = HashMap::new();
    ctx.insert("S".into(), s.clone());
    ctx.insert("T".into(), t.clone());
    ctx.insert("S2".into(), s2.clone());
    ctx.insert("T2".into(), t2.clone());
    let steady = unit.minus(&g.can_post(&unit));
    let l = Laws {
        g: &g,
        unit: unit.clone(),
        steady,
        ctx,
        case,
    };
    let run = || -> Result<bool, Failure> {
        let mut nontrivial = false;
        let mut note = |arg: &Gcv, res: &Gcv| {
            if !arg.is_empty() && arg != &unit && res != arg {
                nontrivial = true;
            }
        };
        // --- EX / AX
        let ex_s = l.tool("EX %S%")?;
        let ax_s = l.tool("AX %S%")?;
        l.expect_eq("EX-is-pre-plus-steady-states", "EX S == pre(S) u (S n states without successor)", &ex_s, &l.ex(&s))?;
        l.expect_eq("AX-dual", "AX S == ~EX ~S (reference EX)", &ax_s, &l.ax(&s))?;
        l.expect_eq("AX-dual-tool", "AX S == ~EX ~S (tool)", &ax_s, &l.tool("~(EX (~%S%))")?)?;
        note(&s, &ex_s);
        // --- EF
        let ef_s = l.tool("EF %S%")?;
        l.expect_eq("EF-unfolding", "EF S == S u EX EF S", &ef_s, &s.union(&l.ex(&ef_s)))?;
        l.expect_eq("EF-is-backward-reachability", "EF S == reach_backward(S)", &ef_s, &g.reach_backward(&s))?;
        note(&s, &ef_s);
        // --- AG
        let ag_s = l.tool("AG %S%")?;
        l.expect_eq("AG-unfolding", "AG S == S n AX AG S", &ag_s, &s.intersect(&l.ax(&ag_s)))?;
        l.expect_eq("AG-is-largest-forward-closed-subset", "AG S == trap_forward(S)", &ag_s, &g.trap_forward(&s))?;
        l.expect_eq("AG-dual", "AG S == ~EF ~S", &ag_s, &l.tool("~(EF (~%S%))")?)?;
        note(&s, &ag_s);
        // --- EU
        let eu = l.tool("%S% EU %T%")?;
        l.expect_eq("EU-unfolding", "E[S U T] == T u (S n EX E[S U T])", &eu, &t.union(&s.intersect(&l.ex(&eu))))?;
        let st = s.union(&t);
        let constrained = Reachability::reach_bwd(&g.restrict(&st), &t);
        l.expect_eq("EU-is-constrained-backward-reachability", "E[S U T] == backward reachability from T inside S u T", &eu, &constrained)?;
        note(&t, &eu);
        // --- AW
        let aw = l.tool("%S% AW %T%")?;
        l.expect_eq("AW-unfolding", "A[S W T] == T u (S n AX A[S W T])", &aw, &t.union(&s.intersect(&l.ax(&aw))))?;
        l.expect_eq("AW-dual", "A[S W T] == ~E[~T U (~S & ~T)]", &aw, &l.tool("~((~%T%) EU ((~%S%) & (~%T%)))")?)?;
        l.expect_sub("AW-contains-psi", "T subset of A[S W T]", &t, &aw)?;
        if case.light {
            for (op, res) in [("EX", &ex_s), ("AX", &ax_s), ("EF", &ef_s), ("AG", &ag_s)] {
                let bigger = l.tool(&format!("{op} %S2%"))?;
                l.expect_sub(&format!("{op}-monotone"), &format!("{op} S subset of {op} S2 for S subset of S2"), res, &bigger)?;
            }
            for (op, res) in [("EU", &eu), ("AW", &aw)] {
                let b1 = l.tool(&format!("%S2% {op} %T%"))?;
                l.expect_sub(&format!("{op}-monotone-left"), &format!("{op} monotone in its first argument"), res, &b1)?;
                let b2 = l.tool(&format!("%S% {op} %T2%"))?;
                l.expect_sub(&format!("{op}-monotone-right"), &format!("{op} monotone in its second argument"), res, &b2)?;
            }
            return Ok(nontrivial);
        }
        // --- EG: unfolding + greatest (reference iteration from the top)
        let eg_s = l.tool("EG %S%")?;
        l.expect_eq("EG-unfolding", "EG S == S n EX EG S", &eg_s, &s.intersect(&l.ex(&eg_s)))?;
        let mut z = s.clone();
        loop {
            let next = z.intersect(&l.ex(&z));
            if next == z {
                break;
            }
            z = next;
        }
        l.expect_eq("EG-is-greatest-fixed-point", "EG S == gfp Z. S n EX Z (reference iteration)", &eg_s, &z)?;
        note(&s, &eg_s);
        // --- AF: unfolding + least + dual
        let af_s = l.tool("AF %S%")?;
        l.expect_eq("AF-unfolding", "AF S == S u AX AF S", &af_s, &s.union(&l.ax(&af_s)))?;
        let mut z = s.clone();
        loop {
            let next = z.union(&l.ax(&z));
            if next == z {
                break;
            }
            z = next;
        }
        l.expect_eq("AF-is-least-fixed-point", "AF S == lfp Z. S u AX Z (reference iteration)", &af_s, &z)?;
        l.expect_eq("AF-dual", "AF S == ~EG ~S", &af_s, &l.tool("~(EG (~%S%))")?)?;
        note(&s, &af_s);
        // --- AU
        let au = l.tool("%S% AU %T%")?;
        l.expect_eq("AU-unfolding", "A[S U T] == T u (S n AX A[S U T])", &au, &t.union(&s.intersect(&l.ax(&au))))?;
        let mut z = t.clone();
        loop {
            let next = z.union(&s.intersect(&l.ax(&z)));
            if next == z {
                break;
            }
            z = next;
        }
        l.expect_eq("AU-is-least-fixed-point", "A[S U T] == lfp Z. T u (S n AX Z) (reference iteration)", &au, &z)?;
        l.expect_eq(
            "AU-dual",
            "A[S U T] == ~(E[~T U (~S & ~T)] | EG ~T)",
            &au,
            &l.tool("~(((~%T%) EU ((~%S%) & (~%T%))) | (EG (~%T%)))")?,
        )?;
        note(&t, &au);
        // --- EW / AW
        let ew = l.tool("%S% EW %T%")?;
        l.expect_eq("EW-unfolding", "E[S W T] == T u (S n EX E[S W T])", &ew, &t.union(&s.intersect(&l.ex(&ew))))?;
        l.expect_eq("EW-definition", "E[S W T] == E[S U T] u EG S", &ew, &eu.union(&eg_s))?;
        l.expect_sub("EW-contains-psi", "T subset of E[S W T]", &t, &ew)?;
        // --- monotonicity (S subset of S2, T subset of T2)
        for (op, res) in [("EX", &ex_s), ("AX", &ax_s), ("EF", &ef_s), ("AF", &af_s), ("EG", &eg_s), ("AG", &ag_s)] {
            let bigger = l.tool(&format!("{op} %S2%"))?;
            l.expect_sub(&format!("{op}-monotone"), &format!("{op} S subset of {op} S2 for S subset of S2"), res, &bigger)?;
        }
        for (op, res) in [("EU", &eu), ("AU", &au), ("EW", &ew), ("AW", &aw)] {
            let b1 = l.tool(&format!("%S2% {op} %T%"))?;
            l.expect_sub(&format!("{op}-monotone-left"), &format!("{op} monotone in its first argument"), res, &b1)?;
            let b2 = l.tool(&format!("%S% {op} %T2%"))?;
            l.expect_sub(&format!("{op}-monotone-right"), &format!("{op} monotone in its second argument"), res, &b2)?;
        }
        Ok(nontrivial)
    };
    match run() {
        Err(f) => Verdict::Fail(f),
        Ok(nontrivial) => Verdict::Pass(CaseReport {
            nontrivial,
            key: hash_of(case),
            classes: vec![
                format!("model:{name}"),
                format!("vars={}", if bn.num_vars() <= 4 { bn.num_vars().to_string() } else if bn.num_vars() <= 26 { "5-26".into() } else if bn.num_vars() <= 52 { "27-52".into() } else { ">52".into() }),
                format!("sets:{}{}{}", case.s.mode, case.t.mode, case.x.mode),
            ],
            sample: json!({"model": name, "aeon": case.aeon, "S": case.s, "T": case.t, "X": case.x}),
        }),
    }
}

impl Property for C11 {
    type Raw = (Option<RawNet>, u16, BigSet, BigSet, BigSet);
    // raw.1 selects the number of frozen padding variables (models of any size)
    fn id(&self) -> &'static str {
        "C11"
    }
    fn rule(&self) -> String {
        format!("random small networks (random stage) and bundled benchmark models (deterministic stage: {} set triples on each of {:?}; quick uses the first 7 models) x argument sets S, T, X (unions of <= 3 sub-spaces x parameter cubes inside the unit set; S2 = S u X, T2 = T u X) supplied as wild-cards: unfolding equations of EX/AX/EF/AF/EG/AG/EU/AU/EW/AW against a reference EX built from lib-param-bn's pre, dualities through the tool, monotonicity in every argument, EF == reach_backward, AG == trap_forward, EU == reach_bwd on the graph restricted to S u T, extremality of EG/AF/AU by reference iterations. Non-trivial: some argument set is neither empty nor the unit set and the operator result differs from it.", "N", MODELS.iter().map(|m| m.1).collect::<Vec<_>>())
    }
    fn assumptions(&self) -> Vec<String> {
        vec![
            "pre, can_post, reach_backward, trap_forward, restrict and Reachability::reach_bwd of lib-param-bn are trusted".into(),
            "models that take more than a minute per operator are excluded (listed in DESIGN.md)".into(),
        ]
    }
    fn cases(&self, tier: Tier) -> u32 {
        tier.pick(8_000, 150_000)
    }
    fn workers(&self) -> usize {
        16
    }
    fn case_timeout_s(&self) -> u64 {
        600
    }
    fn strategy(&self, _tier: Tier) -> BoxedStrategy<Self::Raw> {
        (
            gen::raw_net(4).prop_map(Some),
            any::<u16>(),
            big_set(),
            big_set(),
            big_set(),
        )
            .boxed()
    }
    fn check_raw(&self, raw: &Self::Raw) -> Verdict {
        // padding: frozen variables `m' = m` make the state space as large as a benchmark model while
        // all BDDs stay small, so that the complete law set is affordable beyond 2^53 states
        let pad = [0usize, 0, 0, 0, 12, 30, 50, 58][gen::idx(raw.1, 8)];
        let padded = |aeon: String| -> String {
            let mut a = aeon;
            for i in 0..pad {
                a.push_str(&format!("\nzz_pad_{i} -> zz_pad_{i}\n$zz_pad_{i}: zz_pad_{i}"));
            }
            a
        };
        let case = BigCase {
            aeon: raw.0.as_ref().map(gen::resolve_net).map(padded),
            bundled: None,
            s: raw.2.clone(),
            t: raw.3.clone(),
            x: raw.4.clone(),
            light: false,
        };
        check(&case)
    }
    fn replay(&self, case: &Value) -> Verdict {
        match serde_json::from_value::<BigCase>(case.clone()) {
            Ok(c) => check(&c),
            Err(_) => Verdict::Discard("unreadable-case"),
        }
    }
    fn extra_stages(&self, tier: Tier, seed: u64, stats: &mut Stats) -> Option<Failure> {
        // bundled models: a deterministic stream of set triples derived from the seed
        use proptest::strategy::ValueTree;
        use proptest::test_runner::{Config, RngSeed, TestRunner};
        let models = tier.pick(7, MODELS.len());
        let triples = tier.pick(4, 30);
        let failure: std::sync::Mutex<Option<Failure>> = std::sync::Mutex::new(None);
        let collected: std::sync::Mutex<Vec<CaseReport>> = std::sync::Mutex::new(vec![]);
        std::thread::scope(|scope| {
            for m in 0..models {
                let failure = &failure;
                let collected = &collected;
                scope.spawn(move || {
                    let mut runner = TestRunner::new(Config {
                        rng_seed: RngSeed::Fixed(mix(seed, 1000 + m as u64)),
                        failure_persistence: None,
                        ..Config::default()
                    });
                    let strat = (big_set(), big_set(), big_set());
                    for _ in 0..triples {
                        if failure.lock().unwrap().is_some() {
                            return;
                        }
                        let (mut s, mut t, x) = strat.new_tree(&mut runner).unwrap().current();
                        if false && !FULL_LAWS_ON.contains(&m) && (s.pieces.len() + t.pieces.len()) % 2 == 0 {
                            s.mode = 1 + (s.pieces.len() % 2) as u8;
                            t.mode = 1 + (t.pieces.len() % 2) as u8;
                        }
                        // on the large models the classical iterations are affordable only when the argument sets differ
                        // from empty / everything by a single point (few iterations, small BDDs)
                        let light = !FULL_LAWS_ON.contains(&m); // TODO(point-like): && !(s.is_point_like() && t.is_point_like())
                        let case = BigCase { aeon: None, bundled: Some(m), s, t, x, light };
                        match guard(|| check(&case)) {
                            Ok(Verdict::Fail(f)) => {
                                let mut slot = failure.lock().unwrap();
                                if slot.is_none() {
                                    *slot = Some(f);
                                }
                                return;
                            }
                            Ok(Verdict::Pass(rep)) => collected.lock().unwrap().push(rep),
                            Ok(Verdict::Discard(r)) => harness_error(&format!("bundled model {m} discarded: {r}")),
                            Err(p) => harness_error(&format!("panic in the harness on bundled model {m}: {p}")),
                        }
                    }
                });
            }
        });
        let reports = collected.into_inner().unwrap();
        let n = reports.len();
        for r in reports {
            stats.add(r);
        }
        stats.stages.insert("bundled".into(), json!({"models": models, "set_triples_per_model": triples, "cases": n}));
        failure.into_inner().unwrap()
    }
}
