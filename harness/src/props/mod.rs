pub mod c01;
