//! C20 — the answer for a colour equals the answer on the network instantiated by it.
//! Differential oracle: result restricted to one valid colour, projected to states, == result on
//! `get_extended_symbolic_graph(pick_witness(colour))`, compared state by state (by variable name).

use super::common::*;
use crate::ast::*;
use crate::engine::*;
use crate::gen::FCfg;
use crate::model::{Net, PointReader};
use crate::sem::*;
use biodivine_hctl_model_checker::mc_utils::get_extended_symbolic_graph;
use biodivine_hctl_model_checker::model_checking::*;
use biodivine_lib_param_bn::symbolic_async_graph::GraphColors;
use proptest::prelude::*;
use serde_json::{json, Value};

pub struct C20;

/// Singleton colour set for colour number `c`.
pub fn colour_set(net: &Net, c: u64) -> GraphColors {
    let ctx = net.graph.symbolic_context();
    let set = ctx.bdd_variable_set();
    let mut cube = set.mk_true();
    for (j, name) in net.param_names.iter().enumerate() {
        let v = set.var_by_name(name).unwrap();
        cube = cube.and(&set.mk_literal(v, (c >> j) & 1 == 1));
    }
    GraphColors::new(cube, ctx)
}

/// State slice of `result` for the instantiated network: `witness_result` lives on another graph.
pub fn check_colour(
    prefix: &str,
    case: &SemCase,
    net: &Net,
    text: &str,
    result_slice: u64,
    c: u64,
) -> Result<(), Failure> {
    let witness = match guard(|| net.graph.pick_witness(&colour_set(net, c))) {
        Ok(w) => w,
        Err(p) => harness_error(&format!("pick_witness panicked (harness/library issue): {p}")),
    };
    let g2 = match get_extended_symbolic_graph(&witness, net.k) {
        Ok(g) => g,
        Err(e) => harness_error(&format!("witness network has no valid graph: {e}\n{witness}")),
    };
    if g2.symbolic_context().num_parameter_variables() != 0 {
        harness_error("witness network still has parameters");
    }
    let r2 = match guard(|| model_check_formula_dirty(text, &g2)) {
        Err(p) => return Err(panic_fail(prefix, "model_check_formula_dirty on the instantiated network", &p, case)),
        Ok(Err(e)) => {
            return Err(fail(
                &format!("{prefix}:unexpected-error:instantiated"),
                format!("instantiated network: Err({e})"),
                case,
            ))
        }
        Ok(Ok(r)) => r,
    };
    // read by variable *name*: the witness has its own symbolic context
    let names2: Vec<String> = witness.variables().map(|v| witness.get_variable_name(v).clone()).collect();
    if names2 != net.var_names {
        harness_error(&format!("witness variables {names2:?} != {:?}", net.var_names));
    }
    let reader = PointReader::new(g2.symbolic_context(), &[]);
    let mut slice2 = 0u64;
    for s in 0..net.num_states() {
        if reader.contains(r2.as_bdd(), s, 0, 0) {
            slice2 |= 1 << s;
        }
    }
    if slice2 != result_slice {
        return Err(fail(
            &format!("{prefix}:slice-differs-from-instantiated-network"),
            format!(
                "`{text}`, colour [{}]: states in the parametrised result {result_slice:#b}, result on the instantiated network {slice2:#b}\ninstantiated network:\n{witness}",
                net.colour_to_string(c)
            ),
            case,
        ));
    }
    Ok(())
}

fn check(case: &SemCase, net: &Net, f: &F) -> Verdict {
    if !f.is_closed() || f.has_wild_or_domain() {
        return Verdict::Discard("outside-C20-domain");
    }
    let valid = net.valid_colours();
    let text = &case.formulas[0];
    let result = call_ok!("C20", case, "model_check_formula_dirty", model_check_formula_dirty(text, &net.graph));
    // up to 3 colours chosen by the case
    let sels: Vec<u64> = case
        .extra
        .get("colours")
        .and_then(|s| s.as_array())
        .map(|a| a.iter().filter_map(|x| x.as_u64()).collect())
        .unwrap_or_else(|| vec![0, 1, 2]);
    let mut slices = vec![];
    for sel in sels {
        let c = valid[(sel as usize) % valid.len()];
        let slice = net.slice(&result, c, 0);
        if let Err(fl) = check_colour("C20", case, net, text, slice, c) {
            return Verdict::Fail(fl);
        }
        slices.push(slice);
    }
    let mut classes = net_classes(net);
    classes.extend(formula_classes(f));
    let all_slices: Vec<u64> = sample_colours(net, 32).iter().map(|c| net.slice(&result, *c, 0)).collect();
    let differing = all_slices.iter().any(|s| *s != all_slices[0]);
    Verdict::Pass(CaseReport {
        nontrivial: valid.len() >= 2 && differing,
        key: case.key(),
        classes,
        sample: case.sample(),
    })
}

impl Property for C20 {
    type Raw = (RawSem, Vec<u16>);
    fn id(&self) -> &'static str {
        "C20"
    }
    fn rule(&self) -> String {
        "random parametrised network (plus bundled benchmark models in the thorough tier) x closed plain formula x up to 3 random valid colours: states of the result for that colour == result on get_extended_symbolic_graph(pick_witness(colour)), compared state by state by variable name. Non-trivial: the network has >= 2 valid colours and the formula's slices differ between colours.".into()
    }
    fn assumptions(&self) -> Vec<String> {
        vec![
            "SymbolicAsyncGraph::pick_witness of lib-param-bn instantiates the unknown functions with the given colour (an independent route from the harness's own FnUpdate interpreter)".into(),
        ]
    }
    fn cases(&self, tier: Tier) -> u32 {
        tier.pick(25_000, 700_000)
    }
    fn strategy(&self, tier: Tier) -> BoxedStrategy<Self::Raw> {
        (
            raw_sem(tier.pick(3, 4), 1..=1, 5, tier.pick(16, 22)),
            prop::collection::vec(any::<u16>(), 1..=3),
        )
            .boxed()
    }
    fn check_raw(&self, raw: &Self::Raw) -> Verdict {
        match resolve_sem(&raw.0, FCfg::PLAIN_WEAK) {
            Err(r) => Verdict::Discard(r),
            Ok((mut case, fs, net)) => {
                case.extra = json!({"colours": raw.1.iter().map(|x| *x as u64).collect::<Vec<_>>()});
                check(&case, &net, &fs[0])
            }
        }
    }
    fn replay(&self, case: &Value) -> Verdict {
        replay_with(case, |case, net, fs| check(case, net, &fs[0]))
    }
}
