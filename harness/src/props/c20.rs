//! C20 — the answer for a colour equals the answer on the network instantiated by it.
//! Differential oracle: result restricted to one valid colour, projected to states, == result on
//! `get_extended_symbolic_graph(pick_witness(colour))`, compared state by state (by variable name).

use super::common::*;
use crate::ast::*;
use crate::engine::*;
use crate::gen::FCfg;
use crate::model::{Net, PointReader};
use crate::sem::*;
use biodivine_hctl_model_checker::mc_utils::get_extended_symbolic_graph;
use biodivine_hctl_model_checker::model_checking::*;
use biodivine_lib_param_bn::symbolic_async_graph::GraphColors;
use proptest::prelude::*;
use serde_json::{json, Value};

pub struct C20;

/// Singleton colour set for colour number `c`.
pub fn colour_set(net: &Net, c: u64) -> GraphColors {
    let ctx = net.graph.symbolic_context();
    let set = ctx.bdd_variable_set();
    let mut cube = set.mk_true();
    for (j, name) in net.param_names.iter().enumerate() {
        let v = set.var_by_name(name).unwrap();
        cube = cube.and(&set.mk_literal(v, (c >> j) & 1 == 1));
    }
    GraphColors::new(cube, ctx)
}

/// State slice of `result` for the instantiated network: `witness_result` lives on another graph.
pub fn check_colour(
    prefix: &str,
    case: &SemCase,
    net: &Net,
    text: &str,
    result_slice: u64,
    c: u64,
) -> Result<(), Failure> {
    check_colour_ctx(prefix, case, net, text, result_slice, c, false)
}

/// `extended`: evaluate through the extended entry point, with every context set of the case
/// restricted to colour `c` (on the instantiated network there is only that colour).
pub fn check_colour_ctx(
    prefix: &str,
    case: &SemCase,
    net: &Net,
    text: &str,
    result_slice: u64,
    c: u64,
    extended: bool,
) -> Result<(), Failure> {
    let witness = match guard(|| net.graph.pick_witness(&colour_set(net, c))) {
        Ok(w) => w,
        Err(p) => harness_error(&format!("pick_witness panicked (harness/library issue): {p}")),
    };
    let g2 = match get_extended_symbolic_graph(&witness, net.k) {
        Ok(g) => g,
        Err(e) => harness_error(&format!("witness network has no valid graph: {e}\n{witness}")),
    };
    if g2.symbolic_context().num_parameter_variables() != 0 {
        harness_error("witness network still has parameters");
    }
    let ctx2: biodivine_hctl_model_checker::evaluation::LabelToSetMap = if extended {
        // the witness network as a `Net` of its own (one colour), to build the sliced context sets
        let wnet = match Net::from_bn(witness.clone(), witness.to_string(), net.k) {
            Ok(n) => n,
            Err(e) => harness_error(&format!("witness network not usable: {e:?}")),
        };
        if wnet.num_colours() != 1 || wnet.var_names != net.var_names {
            harness_error("witness network is not a single-colour network over the same variables");
        }
        case.context
            .iter()
            .map(|(label, sets)| {
                let slice = sets.get(c as usize).copied().unwrap_or(0);
                // same symbolic context as g2 (built the same way from the same network)
                (label.clone(), wnet.mk_set(&move |_| slice, true))
            })
            .map(|(l, set)| {
                let bdd = g2
                    .symbolic_context()
                    .transfer_from(set.as_bdd(), wnet.graph.symbolic_context())
                    .unwrap_or_else(|| harness_error("cannot transfer a context set to the witness graph"));
                (l, biodivine_lib_param_bn::symbolic_async_graph::GraphColoredVertices::new(bdd, g2.symbolic_context()))
            })
            .collect()
    } else {
        Default::default()
    };
    let r2 = match guard(|| {
        if extended {
            model_check_extended_formula_dirty(text, &g2, &ctx2)
        } else {
            model_check_formula_dirty(text, &g2)
        }
    }) {
        Err(p) => return Err(panic_fail(prefix, "model_check_formula_dirty on the instantiated network", &p, case)),
        Ok(Err(e)) => {
            return Err(fail(
                &format!("{prefix}:unexpected-error:instantiated"),
                format!("instantiated network: Err({e})"),
                case,
            ))
        }
        Ok(Ok(r)) => r,
    };
    // read by variable *name*: the witness has its own symbolic context
    let names2: Vec<String> = witness.variables().map(|v| witness.get_variable_name(v).clone()).collect();
    if names2 != net.var_names {
        harness_error(&format!("witness variables {names2:?} != {:?}", net.var_names));
    }
    let reader = PointReader::new(g2.symbolic_context(), &[]);
    let mut slice2 = 0u64;
    for s in 0..net.num_states() {
        if reader.contains(r2.as_bdd(), s, 0, 0) {
            slice2 |= 1 << s;
        }
    }
    if slice2 != result_slice {
        return Err(fail(
            &format!("{prefix}:slice-differs-from-instantiated-network"),
            format!(
                "`{text}`, colour [{}]: states in the parametrised result {result_slice:#b}, result on the instantiated network {slice2:#b}\ninstantiated network:\n{witness}",
                net.colour_to_string(c)
            ),
            case,
        ));
    }
    Ok(())
}

fn check(case: &SemCase, net: &Net, f: &F) -> Verdict {
    if !f.is_closed() {
        return Verdict::Discard("outside-C20-domain");
    }
    let extended = f.has_wild_or_domain();
    let valid = net.valid_colours();
    let text = &case.formulas[0];
    let result = if extended {
        let sym = symbolic_context(net, &case.context);
        call_ok!(
            "C20",
            case,
            "model_check_extended_formula_dirty",
            model_check_extended_formula_dirty(text, &net.graph, &sym)
        )
    } else {
        call_ok!("C20", case, "model_check_formula_dirty", model_check_formula_dirty(text, &net.graph))
    };
    // up to 3 colours chosen by the case
    let sels: Vec<u64> = case
        .extra
        .get("colours")
        .and_then(|s| s.as_array())
        .map(|a| a.iter().filter_map(|x| x.as_u64()).collect())
        .unwrap_or_else(|| vec![0, 1, 2]);
    let mut slices = vec![];
    for sel in sels {
        let c = valid[(sel as usize) % valid.len()];
        let slice = net.slice(&result, c, 0);
        if let Err(fl) = check_colour_ctx("C20", case, net, text, slice, c, extended) {
            return Verdict::Fail(fl);
        }
        slices.push(slice);
    }
    let mut classes = net_classes(net);
    classes.extend(formula_classes(f));
    classes.push(if extended { "extended".into() } else { "plain".into() });
    let all_slices: Vec<u64> = sample_colours(net, 32).iter().map(|c| net.slice(&result, *c, 0)).collect();
    let differing = all_slices.iter().any(|s| *s != all_slices[0]);
    Verdict::Pass(CaseReport {
        nontrivial: valid.len() >= 2 && differing,
        key: case.key(),
        classes,
        sample: case.sample(),
    })
}

/// One colour of a bundled benchmark model (`aeon` = "bundled:<index>"): purely symbolic comparison.
fn check_bundled(case: &SemCase) -> Verdict {
    use biodivine_lib_param_bn::biodivine_std::traits::Set;
    let idx: usize = case.aeon.trim_start_matches("bundled:").parse().unwrap_or(0);
    let (name, bn) = match crate::bundled::load_model(idx) {
        Ok(x) => x,
        Err(_) => return Verdict::Discard("bundled-model-not-loadable"),
    };
    let g = match crate::bundled::graph_for(&bn, case.k) {
        Ok(g) => g,
        Err(_) => return Verdict::Discard("constraints-unsatisfiable"),
    };
    let text = &case.formulas[0];
    // a valid colour inside a random parameter cube (or anywhere, if the cube has none)
    let cube: crate::bundled::BigSet = serde_json::from_value(case.extra["colour_cube"].clone())
        .unwrap_or(crate::bundled::BigSet { pieces: vec![], mode: 0 });
    let mut only_params = cube.clone();
    only_params.mode = 0;
    for p in &mut only_params.pieces {
        p.vars.clear();
    }
    let region = crate::bundled::build_big_set(&g, &only_params).colors();
    let colour = if region.is_empty() { g.unit_colors().pick_singleton() } else { region.pick_singleton() };
    let result = call_ok!("C20", case, "model_check_formula_dirty", model_check_formula_dirty(text, &g));
    let witness = g.pick_witness(&colour);
    let g2 = match get_extended_symbolic_graph(&witness, case.k) {
        Ok(g) => g,
        Err(e) => harness_error(&format!("witness of a bundled model has no graph: {e}")),
    };
    let r2 = call_ok!("C20", case, "model_check_formula_dirty", model_check_formula_dirty(text, &g2));
    let slice = result.intersect_colors(&colour).vertices();
    let other = match g.transfer_vertices_from(&r2.vertices(), &g2) {
        Some(v) => v,
        None => harness_error("cannot transfer the witness result by variable name"),
    };
    if slice != other {
        return Verdict::Fail(fail(
            "C20:slice-differs-from-instantiated-network",
            format!(
                "model {name}, `{text}`: the states of the parametrised result for the picked colour ({} states) differ from the result on the instantiated network ({} states)",
                slice.approx_cardinality(),
                other.approx_cardinality()
            ),
            case,
        ));
    }
    // non-trivial: the result is not the same for every colour
    let projected = result.vertices();
    let nontrivial = !slice.is_empty() && g.unit_colors().approx_cardinality() > 1.5
        && result != g.unit_colored_vertices().intersect_vertices(&projected);
    Verdict::Pass(CaseReport {
        nontrivial,
        key: case.key(),
        classes: vec![format!("model:{name}")],
        sample: json!({"model": name, "formula": text}),
    })
}

/// A generated network padded to >= 2^54 (state, colour) pairs - `pad` frozen variables and `pad`
/// further variables that copy a parameter of their own - with context sets that may be single
/// points or complements of points, compared purely symbolically for a colour in which such a
/// point lies (the colour on which a global, count-based shortcut would go wrong).
#[derive(Clone, Debug, serde::Serialize, serde::Deserialize)]
pub struct PaddedCase {
    pub padded: bool,
    pub aeon: String,
    pub k: u16,
    pub formula: String,
    pub context: std::collections::BTreeMap<String, crate::bundled::BigSet>,
    pub colour_cube: crate::bundled::BigSet,
}

pub fn padded_aeon(core: &str, pad: usize) -> String {
    let mut a = core.to_string();
    for i in 0..pad {
        a.push_str(&format!("\nzv{i} -> zv{i}\n$zv{i}: zv{i}\n$zq{i}: in_q{i}"));
    }
    a
}

/// Padding that adds many parameters but few variables, so that the *instantiated* network stays
/// small while the parametrised one has >= 2^64 colours: `wide` further variables whose update
/// function is an unknown function of arity `arity` (2^arity parameter bits each) applied to the
/// variable itself and the first core variable.
pub fn padded_aeon_params(core: &str, first_var: &str, wide: usize, arity: usize) -> String {
    let mut a = core.to_string();
    for i in 0..wide {
        let args: Vec<String> = (0..arity).map(|j| if j % 2 == 0 { format!("zb{i}") } else { first_var.to_string() }).collect();
        a.push_str(&format!("\nzb{i} -?? zb{i}\n{first_var} -?? zb{i}\n$zb{i}: big{i}({})", args.join(", ")));
    }
    a
}

fn check_padded(case: &PaddedCase) -> Verdict {
    use crate::bundled::{build_big_set, BigSet};
    use biodivine_hctl_model_checker::evaluation::LabelToSetMap;
    use biodivine_lib_param_bn::biodivine_std::traits::Set;
    use biodivine_lib_param_bn::symbolic_async_graph::GraphColoredVertices;
    use biodivine_lib_param_bn::BooleanNetwork;
    let pfail = |class: &str, message: String| Verdict::Fail(Failure { class: class.to_string(), message, case: serde_json::to_value(case).unwrap() });
    let Ok(bn) = BooleanNetwork::try_from(case.aeon.as_str()) else { return Verdict::Discard("aeon-not-parsed") };
    let Ok(g) = get_extended_symbolic_graph(&bn, case.k) else { return Verdict::Discard("constraints-unsatisfiable") };
    if g.unit_colors().is_empty() {
        return Verdict::Discard("constraints-unsatisfiable");
    }
    let Ok(f) = crate::refparse::parse(&case.formula, true) else { return Verdict::Discard("unreadable-case") };
    let text = case.formula.as_str();
    let labels: LabelToSetMap = case.context.iter().map(|(l, s)| (l.clone(), build_big_set(&g, s))).collect();
    // the colour: that of the point of a point-like context set if there is one, else inside the cube
    let mut colour = None;
    for set in case.context.values() {
        if set.is_point_like() {
            let point = build_big_set(&g, &BigSet { pieces: set.pieces.clone(), mode: 1 });
            if !point.is_empty() {
                colour = Some(point.colors());
                break;
            }
        }
    }
    let colour = colour.unwrap_or_else(|| {
        let mut only_params = case.colour_cube.clone();
        only_params.mode = 0;
        for p in &mut only_params.pieces {
            p.vars.clear();
        }
        let region = build_big_set(&g, &only_params).colors();
        if region.is_empty() { g.unit_colors().pick_singleton() } else { region.pick_singleton() }
    });
    macro_rules! run {
        ($what:expr, $e:expr) => {
            match guard(|| $e) {
                Err(p) => return pfail(&format!("C20:panic:{}", panic_site(&p)), format!("{} panicked: {p}", $what)),
                Ok(Err(e)) => return pfail(&format!("C20:unexpected-error:{}", $what), format!("{}: Err({e})", $what)),
                Ok(Ok(r)) => r,
            }
        };
    }
    let result = run!("parametrised", model_check_extended_formula_dirty(text, &g, &labels));
    let witness = g.pick_witness(&colour);
    let g2 = match get_extended_symbolic_graph(&witness, case.k) {
        Ok(g) => g,
        Err(e) => harness_error(&format!("witness of a padded network has no graph: {e}")),
    };
    let mut labels2: LabelToSetMap = LabelToSetMap::new();
    for (l, set) in &labels {
        let v = set.intersect_colors(&colour).vertices();
        let Some(v2) = g2.transfer_vertices_from(&v, &g) else { harness_error("cannot transfer a context set to the witness graph") };
        let lifted: GraphColoredVertices = g2.mk_unit_colored_vertices().intersect_vertices(&v2);
        labels2.insert(l.clone(), lifted);
    }
    let r2 = run!("instantiated", model_check_extended_formula_dirty(text, &g2, &labels2));
    let slice = result.intersect_colors(&colour).vertices();
    let Some(other) = g.transfer_vertices_from(&r2.vertices(), &g2) else { harness_error("cannot transfer the witness result by variable name") };
    if slice != other {
        let diff = slice.minus(&other).union(&other.minus(&slice));
        return pfail(
            "C20:slice-differs-from-instantiated-network",
            format!(
                "padded network ({} variables, {} parameter bits), `{text}`: the states of the parametrised result for the chosen colour differ from the result on the instantiated network in {} states",
                bn.num_vars(),
                g.symbolic_context().num_parameter_variables(),
                diff.approx_cardinality()
            ),
        );
    }
    let bits = bn.num_vars() + g.symbolic_context().num_parameter_variables();
    let mut classes = vec![format!("padded:state+parameter-bits={}", if bits >= 54 { ">=54" } else { "<54" }), "padded".to_string()];
    if case.context.values().any(|s| s.is_point_like()) {
        classes.push("padded:point-like-context-set".into());
    }
    classes.extend(f.operator_labels().into_iter().map(|o| format!("op:{o}")));
    let projected = result.vertices();
    let nontrivial = !slice.is_empty() && result != g.unit_colored_vertices().intersect_vertices(&projected);
    Verdict::Pass(CaseReport {
        nontrivial,
        key: hash_of(&(&case.aeon, &case.formula, &case.context)),
        classes,
        sample: json!({"network_lines": case.aeon.lines().count(), "variables": bn.num_vars(), "formula": text, "context": case.context.keys().collect::<Vec<_>>()}),
    })
}

impl Property for C20 {
    type Raw = (RawSem, Vec<u16>, bool);
    fn id(&self) -> &'static str {
        "C20"
    }
    fn rule(&self) -> String {
        "random parametrised network (plus bundled benchmark models: deterministic stage) x closed plain or extended formula (context sets of the instantiated network = the case's context sets restricted to that colour) x up to 3 random valid colours: states of the result for that colour == result on get_extended_symbolic_graph(pick_witness(colour)), compared state by state by variable name. Deterministic stage on padded networks: generated core network padded to 2^45 .. 2^85 state-colour pairs, either by 14 frozen variables + 14 variables that copy a parameter of their own, or by 1-2 variables with an unknown update function of arity 5-6 (64 parameter bits but a small instantiated network), or both x extended formula over the core variables whose context sets are sub-space unions, single points or complements of single points; the colour compared is the one in which such a point lies; purely symbolic comparison (transfer_vertices_from). Non-trivial: the network has >= 2 valid colours and the formula's slices differ between colours.".into()
    }
    fn assumptions(&self) -> Vec<String> {
        vec![
            "SymbolicAsyncGraph::pick_witness of lib-param-bn instantiates the unknown functions with the given colour (an independent route from the harness's own FnUpdate interpreter)".into(),
        ]
    }
    fn cases(&self, tier: Tier) -> u32 {
        tier.pick(25_000, 700_000)
    }
    fn strategy(&self, tier: Tier) -> BoxedStrategy<Self::Raw> {
        (
            raw_sem(tier.pick(3, 4), 1..=1, 5, tier.pick(16, 22)),
            prop::collection::vec(any::<u16>(), 1..=3),
            any::<bool>(),
        )
            .boxed()
    }
    fn check_raw(&self, raw: &Self::Raw) -> Verdict {
        match resolve_sem(&raw.0, if raw.2 { FCfg::EXTENDED_WEAK } else { FCfg::PLAIN_WEAK }) {
            Err(r) => Verdict::Discard(r),
            Ok((mut case, fs, net)) => {
                case.extra = json!({"colours": raw.1.iter().map(|x| *x as u64).collect::<Vec<_>>()});
                check(&case, &net, &fs[0])
            }
        }
    }
    fn replay(&self, case: &Value) -> Verdict {
        if case.get("padded").is_some() {
            return match serde_json::from_value::<PaddedCase>(case.clone()) {
                Ok(c) => check_padded(&c),
                Err(_) => Verdict::Discard("unreadable-case"),
            };
        }
        if case["aeon"].as_str().map(|a| a.starts_with("bundled:")).unwrap_or(false) {
            return match SemCase::from_json(case) {
                Ok(c) => check_bundled(&c),
                Err(_) => Verdict::Discard("unreadable-case"),
            };
        }
        replay_with(case, |case, net, fs| check(case, net, &fs[0]))
    }
    fn extra_stages(&self, tier: Tier, seed: u64, stats: &mut Stats) -> Option<Failure> {
        use crate::bundled::*;
        // parametrised bundled models only
        let models: Vec<usize> = tier.pick(vec![0, 2], vec![0, 1, 2, 3, 5, 6]);
        let per_model = tier.pick(3, 20);
        let failure: std::sync::Mutex<Option<Failure>> = std::sync::Mutex::new(None);
        let reports: std::sync::Mutex<Vec<CaseReport>> = std::sync::Mutex::new(vec![]);
        std::thread::scope(|scope| {
            for m in models.iter().copied() {
                let (failure, reports) = (&failure, &reports);
                scope.spawn(move || {
                    let Ok((_, bn)) = load_model(m) else { harness_error("bundled model not loadable") };
                    let strat = (crate::gen::raw_f(4, 8), big_set());
                    for (raw, cube) in sample_stream(&strat, mix(seed, 3000 + m as u64), per_model) {
                        if failure.lock().unwrap().is_some() {
                            return;
                        }
                        let f = bundled_formula(&raw, &bn, HYBRID_OK_ON.contains(&m));
                        let case = SemCase {
                            aeon: format!("bundled:{m}"),
                            k: f.quant_depth() as u16,
                            formulas: vec![f.canon()],
                            context: Default::default(),
                            extra: json!({"colour_cube": cube}),
                        };
                        match guard(|| check_bundled(&case)) {
                            Ok(Verdict::Fail(fl)) => {
                                failure.lock().unwrap().get_or_insert(fl);
                                return;
                            }
                            Ok(Verdict::Pass(rep)) => reports.lock().unwrap().push(rep),
                            Ok(Verdict::Discard(r)) => harness_error(&format!("bundled case discarded: {r}")),
                            Err(p) => harness_error(&format!("panic in the harness on a bundled model: {p}")),
                        }
                    }
                });
            }
        });
        let reports = reports.into_inner().unwrap();
        stats.stages.insert("bundled".into(), json!({"models": models, "cases_per_model": per_model, "cases": reports.len()}));
        for r in reports {
            stats.add(r);
        }
        if let Some(f) = failure.into_inner().unwrap() {
            return Some(f);
        }
        // padded networks: 2^54 .. 2^80 (state, colour) pairs, point-like context sets
        let count = tier.pick(160, 4000);
        let strat = (
            crate::gen::raw_net(3),
            crate::gen::raw_f_weighted(4, 10, 1),
            prop::collection::vec(big_set(), crate::gen::LABELS.len()),
            big_set(),
            0..4u8,
        );
        let raws = sample_stream(&strat, mix(seed, 0x9add), count);
        let failure: std::sync::Mutex<Option<Failure>> = std::sync::Mutex::new(None);
        let reports: std::sync::Mutex<Vec<CaseReport>> = std::sync::Mutex::new(vec![]);
        let discards = std::sync::atomic::AtomicUsize::new(0);
        let next = std::sync::atomic::AtomicUsize::new(0);
        std::thread::scope(|scope| {
            for _ in 0..16 {
                scope.spawn(|| loop {
                    let i = next.fetch_add(1, std::sync::atomic::Ordering::SeqCst);
                    if i >= raws.len() || failure.lock().unwrap().is_some() {
                        return;
                    }
                    let (net, rf, sets, cube, padsel) = &raws[i];
                    let mut net = net.clone();
                    net.frozen = 0;
                    let pad = [14usize, 0, 0, 6][*padsel as usize % 4];
                    let core = crate::gen::resolve_net(&net);
                    let first_var = core
                        .split(|c: char| !(c.is_alphanumeric() || c == '_'))
                        .find(|w| !w.is_empty() && !matches!(*w, "true" | "false"))
                        .unwrap_or("a")
                        .to_string();
                    let aeon = match *padsel % 4 {
                        0 => padded_aeon(&core, pad),
                        1 => padded_aeon_params(&core, &first_var, 1, 6),
                        2 => padded_aeon_params(&core, &first_var, 2, 5),
                        _ => padded_aeon(&padded_aeon_params(&core, &first_var, 1, 6), pad),
                    };
                    let Ok(bn) = biodivine_lib_param_bn::BooleanNetwork::try_from(aeon.as_str()) else {
                        discards.fetch_add(1, std::sync::atomic::Ordering::SeqCst);
                        continue;
                    };
                    // formulae over the core variables (the padding is never mentioned), one state variable
                    let core: Vec<String> = bn.variables().map(|v| bn.get_variable_name(v).clone()).filter(|n| !n.starts_with("zv") && !n.starts_with("zq") && !n.starts_with("zb")).collect();
                    let labels: Vec<String> = crate::gen::LABELS.iter().map(|s| s.to_string()).collect();
                    let env = crate::gen::FEnv {
                        props: &core,
                        labels: &labels,
                        // (no attractor pattern: its shortcut enumerates the 2^pad attractors of the frozen variables one by one)
                        cfg: FCfg { max_quant_depth: 1, long_chains: false, patterns: false, ..FCfg::EXTENDED_WEAK },
                        binders: &crate::gen::BINDERS,
                    };
                    let f = crate::gen::resolve_f(rf, &env);
                    let mut sets = sets.clone();
                    // every second case: the first set is a point or the complement of a point
                    if i % 2 == 0 {
                        sets[0].mode = 1 + (i / 2 % 2) as u8;
                    }
                    let mut context = crate::scale::context_for(&f, &sets);
                    let f = if context.is_empty() || !context.values().any(|s| s.is_point_like()) && i % 2 == 0 {
                        // make sure the point-like set is used, under an operator that iterates
                        let l = crate::gen::LABELS[0].to_string();
                        context.insert(l.clone(), sets[0].clone());
                        let w = F::Wild(l);
                        match i / 4 % 4 {
                            0 => F::bin(BinOp::And, F::un(UnOp::EG, w), f),
                            1 => F::bin(BinOp::Or, F::un(UnOp::AF, w), f),
                            2 => F::bin(BinOp::AU, f, w),
                            _ => F::bin(BinOp::EW, w, f),
                        }
                    } else {
                        f
                    };
                    let case = PaddedCase { padded: true, aeon, k: f.quant_depth() as u16, formula: f.canon(), context, colour_cube: cube.clone() };
                    let t_case = std::time::Instant::now();
                    if std::env::var("VERIF_TRACE_SLOW").is_ok() {
                        eprintln!("padded case {i} start: pad {pad} k {} `{}`", case.k, case.formula);
                    }
                    let owned = case.clone();
                    let verdict = match with_time_limit(std::time::Duration::from_secs(60), move || guard(|| check_padded(&owned))) {
                        Some(v) => v,
                        None => Ok(Verdict::Discard("call-exceeded-its-time-limit")),
                    };
                    if std::env::var("VERIF_TRACE_SLOW").is_ok() {
                        eprintln!("padded case {i} done in {:?}", t_case.elapsed());
                    }
                    match verdict {
                        Ok(Verdict::Fail(fl)) => {
                            failure.lock().unwrap().get_or_insert(fl);
                            return;
                        }
                        Ok(Verdict::Pass(rep)) => reports.lock().unwrap().push(rep),
                        Ok(Verdict::Discard(_)) => {
                            discards.fetch_add(1, std::sync::atomic::Ordering::SeqCst);
                        }
                        Err(p) => harness_error(&format!("panic in the harness on a padded network: {p}")),
                    }
                });
            }
        });
        let reports = reports.into_inner().unwrap();
        stats.stages.insert("padded-networks".into(), json!({"cases": reports.len(), "discarded": discards.into_inner(), "nontrivial": reports.iter().filter(|r| r.nontrivial).count()}));
        for r in reports {
            stats.add(r);
        }
        failure.into_inner().unwrap()
    }
}
