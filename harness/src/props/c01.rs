//! C01 — model checking returns exactly the (state, colour) pairs satisfying the formula.
//! Oracle: explicit-state evaluator, point-wise on every state x sampled valid colour, through every
//! plain entry point (string / tree, single / one-element batch, raw / sanitised).

use super::common::*;
use crate::ast::F;
use crate::engine::*;
use crate::gen::FCfg;
use crate::model::Net;
use crate::sem::*;
use crate::scale::*;
use proptest::prelude::*;
use serde_json::Value;
use std::time::Duration;

pub struct C01;

fn check(case: &SemCase, net: &Net, f: &F) -> Verdict {
    if f.has_wild_or_domain() || f.has_weak_until() || !f.is_closed() {
        return Verdict::Discard("outside-C01-domain");
    }
    let colours = sample_colours(net, 64);
    let t0 = std::time::Instant::now();
    let want = &expected_many(net, std::slice::from_ref(f), &case.context, &colours)[0];
    let t_oracle = t0.elapsed();
    let results = match run_plain("C01", net, case, &case.formulas[0]) {
        Ok(r) => r,
        Err(fl) => return Verdict::Fail(fl),
    };
    if t0.elapsed().as_secs() >= 3 && std::env::var("VERIF_TRACE_SLOW").is_ok() {
        eprintln!("slow small case: oracle {:?}, total {:?}, n={} colours={} :: {} :: {}", t_oracle, t0.elapsed(), net.n, colours.len(), case.formulas[0], case.aeon.replace('\n', " ; "));
    }
    if let Err(fl) = compare_all("C01", net, case, &results, &colours, want) {
        return Verdict::Fail(fl);
    }
    let mut classes = net_classes(net);
    classes.extend(formula_classes(f));
    let nontrivial = (f.has_temporal() || f.has_hybrid()) && nontrivial_result(net, want);
    Verdict::Pass(CaseReport {
        nontrivial,
        key: case.key(),
        classes,
        sample: case.sample(),
    })
}

impl Property for C01 {
    type Raw = WithMid<RawSem>;
    fn id(&self) -> &'static str {
        "C01"
    }
    fn rule(&self) -> String {
        "(a) random network (1-4 variables; implicit / explicit / uninterpreted update functions; constrained and unconstrained regulations; <= 4096 colours) x closed plain formula (no EW/AW, no wild-cards; <= 3 nested state variables), compared point-wise (every state x up to 64 valid colours, three settings of the extra variables) with the explicit-state evaluator through 8 entry points. Non-trivial: the formula has a temporal or hybrid operator and the expected result is neither empty nor the whole valid universe; distinct = hash of (network text, k, formula text). (b) ~2 % of the random cases: generated mid-size network (7-14 variables, every variable with 1-3 regulators and an implicit / explicit / shared-symbol update function, up to ~100 parameter bits) x closed plain formula with <= 2 nested state variables; (c) deterministic stage: 21 (quick) / 30 (thorough) bundled benchmark models (9-252 variables, up to 108 parameter bits) x 10 / 60 formulae each (saturation-friendly operators; one state variable on the 6 smallest). (b) and (c) are decided by the reference symbolic evaluator (refsym.rs: own one-step relation from the update-function BDDs, EX and AX written out, sinks as self-loops, plain fixed-point iterations, one spare variable set per binder depth), whole-set BDD equality through model_check_formula_dirty, model_check_tree_dirty and model_check_formula; that evaluator is calibrated against the explicit-state one on 1500 / 20000 small cases at the start of every run (disagreement = harness error).".into()
    }
    fn assumptions(&self) -> Vec<String> {
        vec![
            "aeon parsing, FnUpdate, function-table row numbering and Bdd::eval_in of lib-param-bn / lib-bdd are trusted".into(),
            "colour validity is taken from SymbolicAsyncGraph::unit_colors (input-domain notion)".into(),
            "bounded: <= 4 variables, <= 12 parameter bits, quantifier nesting <= 3, <= ~24 formula nodes".into(),
        ]
    }
    fn cases(&self, tier: Tier) -> u32 {
        tier.pick(40_000, 1_500_000)
    }
    fn strategy(&self, tier: Tier) -> BoxedStrategy<WithMid<RawSem>> {
        // ~1 % mid-size cases; the reference evaluator gets 0.6 s (quick) / 2.5 s (thorough) per case,
        // beyond that the case is skipped and counted
        with_mid(raw_sem(tier.pick(3, 4), 1..=1, 5, tier.pick(16, 24)), tier.pick(99, 299), 1, tier.pick(600, 2500))
    }
    fn check_raw(&self, raw: &WithMid<RawSem>) -> Verdict {
        match raw {
            WithMid::Small(raw) => match resolve_sem(raw, FCfg::PLAIN) {
                Err(r) => Verdict::Discard(r),
                Ok((case, fs, net)) => check(&case, &net, &fs[0]),
            },
            WithMid::Mid(raw, ms) => check_mid("C01", raw, *ms, FCfg::PLAIN),
        }
    }
    fn replay(&self, case: &Value) -> Verdict {
        if let Some(v) = replay_scale("C01", case) {
            return v;
        }
        replay_with(case, |case, net, fs| check(case, net, &fs[0]))
    }
    fn extra_stages(&self, tier: Tier, seed: u64, stats: &mut Stats) -> Option<Failure> {
        // the reference symbolic evaluator is checked against the explicit-state one first
        calibrate(seed, tier.pick(1500, 20_000), FCfg::PLAIN, stats);
        let mut models: Vec<&str> = SCALE_MODELS_QUICK.to_vec();
        if tier == Tier::Thorough {
            models.extend(SCALE_MODELS_MORE);
        }
        bundled_scale_stage("C01", &models, tier.pick(10, 60), seed, Duration::from_secs(tier.pick(5, 30)), FCfg::PLAIN, 1, stats)
    }
}
