//! C01 — model checking returns exactly the (state, colour) pairs satisfying the formula.
//! Oracle: explicit-state evaluator, point-wise on every state x sampled valid colour, through every
//! plain entry point (string / tree, single / one-element batch, raw / sanitised).

use crate::ast::F;
use crate::engine::*;
use crate::gen::FCfg;
use crate::model::Net;
use crate::sem::*;
use biodivine_hctl_model_checker::model_checking::*;
use biodivine_hctl_model_checker::preprocessing::parser::parse_and_minimize_hctl_formula;
use proptest::strategy::BoxedStrategy;
use serde_json::Value;

pub struct C01;

pub fn panic_fail(prefix: &str, what: &str, p: &str, case: &SemCase) -> Failure {
    fail(
        &format!("{prefix}:panic:{}", panic_site(p)),
        format!("{what} panicked: {p}"),
        case,
    )
}

/// Run all plain entry points on one closed plain formula and compare each with `want`.
pub fn check_plain_entry_points(
    prefix: &str,
    net: &Net,
    case: &SemCase,
    text: &str,
    colours: &[u64],
    want: &[u64],
) -> Result<(), Failure> {
    let g = &net.graph;
    macro_rules! call {
        ($name:expr, $e:expr) => {
            match guard(|| $e) {
                Err(p) => return Err(panic_fail(prefix, $name, &p, case)),
                Ok(Err(e)) => {
                    return Err(fail(
                        &format!("{prefix}:unexpected-error:{}", $name),
                        format!("{} returned Err({e}) on a valid closed formula", $name),
                        case,
                    ))
                }
                Ok(Ok(v)) => v,
            }
        };
    }
    macro_rules! cmp {
        ($name:expr, raw, $set:expr) => {
            if let Err(m) = compare_raw(net, $set, colours, want) {
                return Err(fail(&format!("{prefix}:mismatch:{}", $name), format!("{}: {m}", $name), case));
            }
        };
        ($name:expr, san, $set:expr) => {
            if let Err(m) = compare_sanitised(net, $set, colours, want) {
                return Err(fail(&format!("{prefix}:mismatch:{}", $name), format!("{}: {m}", $name), case));
            }
        };
    }
    let r = call!("model_check_formula_dirty", model_check_formula_dirty(text, g));
    cmp!("model_check_formula_dirty", raw, &r);
    let r = call!("model_check_formula", model_check_formula(text, g));
    cmp!("model_check_formula", san, &r);
    let tree = call!(
        "parse_and_minimize_hctl_formula",
        parse_and_minimize_hctl_formula(g.symbolic_context(), text)
    );
    let r = call!("model_check_tree_dirty", model_check_tree_dirty(tree.clone(), g));
    cmp!("model_check_tree_dirty", raw, &r);
    let r = call!("model_check_tree", model_check_tree(tree.clone(), g));
    cmp!("model_check_tree", san, &r);
    let r = call!(
        "model_check_multiple_formulae_dirty",
        model_check_multiple_formulae_dirty(vec![text], g)
    );
    if r.len() != 1 {
        return Err(fail(&format!("{prefix}:batch-length"), format!("one formula in, {} results out", r.len()), case));
    }
    cmp!("model_check_multiple_formulae_dirty", raw, &r[0]);
    let r = call!(
        "model_check_multiple_formulae",
        model_check_multiple_formulae(vec![text], g)
    );
    cmp!("model_check_multiple_formulae", san, &r[0]);
    let r = call!(
        "model_check_multiple_trees_dirty",
        model_check_multiple_trees_dirty(vec![tree.clone()], g)
    );
    cmp!("model_check_multiple_trees_dirty", raw, &r[0]);
    let r = call!(
        "model_check_multiple_trees",
        model_check_multiple_trees(vec![tree], g)
    );
    cmp!("model_check_multiple_trees", san, &r[0]);
    Ok(())
}

pub fn nontrivial_result(net: &Net, want: &[u64]) -> bool {
    want.iter().any(|s| *s != 0) && want.iter().any(|s| *s != net.all_states())
}

fn check(case: &SemCase, net: &Net, f: &F) -> Verdict {
    if f.has_wild_or_domain() || f.has_weak_until() || !f.is_closed() {
        return Verdict::Discard("outside-C01-domain");
    }
    let colours = sample_colours(net, 64);
    let want = &expected_many(net, std::slice::from_ref(f), &case.context, &colours)[0];
    if let Err(fl) = check_plain_entry_points("C01", net, case, &case.formulas[0], &colours, want) {
        return Verdict::Fail(fl);
    }
    let mut classes = net_classes(net);
    classes.extend(formula_classes(f));
    let nontrivial = (f.has_temporal() || f.has_hybrid()) && nontrivial_result(net, want);
    Verdict::Pass(CaseReport {
        nontrivial,
        key: case.key(),
        classes,
        sample: case.sample(),
    })
}

impl Property for C01 {
    type Raw = RawSem;
    fn id(&self) -> &'static str {
        "C01"
    }
    fn rule(&self) -> String {
        "random network (1-4 variables; implicit / explicit / uninterpreted update functions; constrained and unconstrained regulations; <= 4096 colours) x closed plain formula (no EW/AW, no wild-cards; <= 3 nested state variables), compared point-wise (every state x up to 64 valid colours, three settings of the extra variables) with the explicit-state evaluator through 8 entry points. Non-trivial: the formula has a temporal or hybrid operator and the expected result is neither empty nor the whole valid universe; distinct = hash of (network text, k, formula text).".into()
    }
    fn assumptions(&self) -> Vec<String> {
        vec![
            "aeon parsing, FnUpdate, function-table row numbering and Bdd::eval_in of lib-param-bn / lib-bdd are trusted".into(),
            "colour validity is taken from SymbolicAsyncGraph::unit_colors (input-domain notion)".into(),
            "bounded: <= 4 variables, <= 12 parameter bits, quantifier nesting <= 3, <= ~20 formula nodes".into(),
        ]
    }
    fn cases(&self, tier: Tier) -> u32 {
        tier.pick(4000, 80000)
    }
    fn strategy(&self, tier: Tier) -> BoxedStrategy<RawSem> {
        raw_sem(tier.pick(3, 4), 1..=1, 5, tier.pick(16, 24))
    }
    fn check_raw(&self, raw: &RawSem) -> Verdict {
        match resolve_sem(raw, FCfg::PLAIN) {
            Err(r) => Verdict::Discard(r),
            Ok((case, fs, net)) => check(&case, &net, &fs[0]),
        }
    }
    fn replay(&self, case: &Value) -> Verdict {
        let case = match SemCase::from_json(case) {
            Ok(c) => c,
            Err(_) => return Verdict::Discard("unreadable-case"),
        };
        let net = match build_net(&case) {
            Ok(n) => n,
            Err(r) => return Verdict::Discard(r),
        };
        let f = case.parsed().remove(0);
        check(&case, &net, &f)
    }
}
