//! C01 — model checking returns exactly the (state, colour) pairs satisfying the formula.
//! Oracle: explicit-state evaluator, point-wise on every state x sampled valid colour, through every
//! plain entry point (string / tree, single / one-element batch, raw / sanitised).

use super::common::*;
use crate::ast::F;
use crate::engine::*;
use crate::gen::FCfg;
use crate::model::Net;
use crate::sem::*;
use proptest::strategy::BoxedStrategy;
use serde_json::Value;

pub struct C01;

fn check(case: &SemCase, net: &Net, f: &F) -> Verdict {
    if f.has_wild_or_domain() || f.has_weak_until() || !f.is_closed() {
        return Verdict::Discard("outside-C01-domain");
    }
    let colours = sample_colours(net, 64);
    let want = &expected_many(net, std::slice::from_ref(f), &case.context, &colours)[0];
    let results = match run_plain("C01", net, case, &case.formulas[0]) {
        Ok(r) => r,
        Err(fl) => return Verdict::Fail(fl),
    };
    if let Err(fl) = compare_all("C01", net, case, &results, &colours, want) {
        return Verdict::Fail(fl);
    }
    let mut classes = net_classes(net);
    classes.extend(formula_classes(f));
    let nontrivial = (f.has_temporal() || f.has_hybrid()) && nontrivial_result(net, want);
    Verdict::Pass(CaseReport {
        nontrivial,
        key: case.key(),
        classes,
        sample: case.sample(),
    })
}

impl Property for C01 {
    type Raw = RawSem;
    fn id(&self) -> &'static str {
        "C01"
    }
    fn rule(&self) -> String {
        "random network (1-4 variables; implicit / explicit / uninterpreted update functions; constrained and unconstrained regulations; <= 4096 colours) x closed plain formula (no EW/AW, no wild-cards; <= 3 nested state variables), compared point-wise (every state x up to 64 valid colours, three settings of the extra variables) with the explicit-state evaluator through 8 entry points. Non-trivial: the formula has a temporal or hybrid operator and the expected result is neither empty nor the whole valid universe; distinct = hash of (network text, k, formula text).".into()
    }
    fn assumptions(&self) -> Vec<String> {
        vec![
            "aeon parsing, FnUpdate, function-table row numbering and Bdd::eval_in of lib-param-bn / lib-bdd are trusted".into(),
            "colour validity is taken from SymbolicAsyncGraph::unit_colors (input-domain notion)".into(),
            "bounded: <= 4 variables, <= 12 parameter bits, quantifier nesting <= 3, <= ~24 formula nodes".into(),
        ]
    }
    fn cases(&self, tier: Tier) -> u32 {
        tier.pick(40_000, 1_500_000)
    }
    fn strategy(&self, tier: Tier) -> BoxedStrategy<RawSem> {
        raw_sem(tier.pick(3, 4), 1..=1, 5, tier.pick(16, 24))
    }
    fn check_raw(&self, raw: &RawSem) -> Verdict {
        match resolve_sem(raw, FCfg::PLAIN) {
            Err(r) => Verdict::Discard(r),
            Ok((case, fs, net)) => check(&case, &net, &fs[0]),
        }
    }
    fn replay(&self, case: &Value) -> Verdict {
        replay_with(case, |case, net, fs| check(case, net, &fs[0]))
    }
}
