//! C12 — attractor and steady-state shortcuts agree with generic evaluation everywhere.
//! Oracles: differential against a pattern-defeating rewrite (`{x}` -> `({x} & {x})` inside the
//! pattern, which the recogniser does not match, evaluated by the generic path) through the tool,
//! alone and inside one batch; and the explicit-state evaluator.

use super::common::*;
use crate::ast::*;
use crate::engine::*;
use crate::gen::FCfg;
use crate::model::Net;
use crate::sem::*;
use biodivine_hctl_model_checker::model_checking::*;
use proptest::strategy::BoxedStrategy;
use serde_json::Value;

pub struct C12;

#[derive(PartialEq, Clone, Copy, Debug)]
pub enum Pat {
    Attractor,
    SteadyState,
}

/// Exactly the two shapes named in the property: `!{x}: AG EF {x}` and `!{x}: AX {x}` (no domain).
pub fn pattern_of(f: &F) -> Option<Pat> {
    if let F::Hyb(HybOp::Bind, x, None, body) = f {
        match &**body {
            F::Un(UnOp::AG, a) => {
                if let F::Un(UnOp::EF, b) = &**a {
                    if **b == F::Var(x.clone()) {
                        return Some(Pat::Attractor);
                    }
                }
            }
            F::Un(UnOp::AX, b) => {
                if **b == F::Var(x.clone()) {
                    return Some(Pat::SteadyState);
                }
            }
            _ => {}
        }
    }
    None
}

/// Formulae that merely resemble the patterns.
fn near_miss(f: &F) -> Option<&'static str> {
    if let F::Hyb(HybOp::Bind, x, d, body) = f {
        if pattern_of(&F::Hyb(HybOp::Bind, x.clone(), None, body.clone())).is_some() && d.is_some() {
            return Some("domain-on-binder");
        }
        match &**body {
            F::Un(UnOp::AG, a) => {
                if let F::Un(UnOp::EF, b) = &**a {
                    if matches!(&**b, F::Var(y) if y != x) {
                        return Some("other-variable");
                    }
                    if !matches!(&**b, F::Var(_)) && b.free_vars().contains(x) {
                        return Some("extra-operator");
                    }
                }
            }
            F::Un(UnOp::EF, a) => {
                if let F::Un(UnOp::AG, b) = &**a {
                    if **b == F::Var(x.clone()) {
                        return Some("swapped-operators");
                    }
                }
            }
            F::Un(UnOp::AX, b) => {
                if matches!(&**b, F::Var(y) if y != x) {
                    return Some("other-variable");
                }
                if !matches!(&**b, F::Var(_)) && b.free_vars().contains(x) {
                    return Some("extra-operator");
                }
            }
            _ => {}
        }
    }
    None
}

/// Rewrite every pattern occurrence into a logically identical formula the recogniser does not match.
pub fn defeat(f: &F) -> F {
    if let (Some(p), F::Hyb(_, x, _, _)) = (pattern_of(f), f) {
        let xx = F::and(F::var(x), F::var(x));
        let body = match p {
            Pat::Attractor => F::un(UnOp::AG, F::un(UnOp::EF, xx)),
            Pat::SteadyState => F::un(UnOp::AX, xx),
        };
        return F::Hyb(HybOp::Bind, x.clone(), None, Box::new(body));
    }
    match f {
        F::Un(op, a) => F::Un(*op, Box::new(defeat(a))),
        F::Bin(op, a, b) => F::Bin(*op, Box::new(defeat(a)), Box::new(defeat(b))),
        F::Hyb(op, v, d, a) => F::Hyb(*op, v.clone(), d.clone(), Box::new(defeat(a))),
        other => other.clone(),
    }
}

fn classify(f: &F, depth: usize, in_scope: bool, in_restricted: bool, out: &mut Vec<String>) {
    if let Some(p) = pattern_of(f) {
        out.push(format!("{p:?}"));
        out.push(
            if depth == 0 {
                "position:root"
            } else if in_restricted {
                "position:inside-restricted-scope"
            } else if in_scope {
                "position:inside-quantifier-scope"
            } else {
                "position:below-root"
            }
            .to_string(),
        );
    }
    if let Some(n) = near_miss(f) {
        out.push(format!("near-miss:{n}"));
    }
    match f {
        F::Hyb(op, _, d, a) => classify(
            a,
            depth + 1,
            in_scope || op.is_quantifier(),
            in_restricted || d.is_some(),
            out,
        ),
        _ => {
            for c in f.children() {
                classify(c, depth + 1, in_scope, in_restricted, out);
            }
        }
    }
}

fn check(case: &SemCase, net: &Net, f: &F) -> Verdict {
    if !f.is_closed() {
        return Verdict::Discard("outside-C12-domain");
    }
    let mut classes = vec![];
    classify(f, 0, false, false, &mut classes);
    if classes.is_empty() {
        return Verdict::Discard("no-pattern-or-near-miss");
    }
    let g = &net.graph;
    let sym = symbolic_context(net, &case.context);
    let text = case.formulas[0].clone();
    let generic = defeat(f).canon();
    let colours = sample_colours(net, 32);
    let want = &expected_many(net, std::slice::from_ref(f), &case.context, &colours)[0];
    let results = match run_extended("C12", net, case, &text, &sym) {
        Ok(r) => r,
        Err(fl) => return Verdict::Fail(fl),
    };
    if let Err(fl) = compare_all("C12", net, case, &results, &colours, want) {
        return Verdict::Fail(fl);
    }
    let shortcut = &results[0].set;
    let r_generic = call_ok!(
        "C12",
        case,
        "model_check_extended_formula_dirty",
        model_check_extended_formula_dirty(&generic, g, &sym)
    );
    if &r_generic != shortcut {
        return Verdict::Fail(fail(
            "C12:shortcut-differs-from-generic",
            format!("`{text}` (dedicated evaluation) and `{generic}` (generic evaluation of a logically identical formula) evaluate to different sets"),
            case,
        ));
    }
    let batch = call_ok!(
        "C12",
        case,
        "model_check_multiple_extended_formulae_dirty",
        model_check_multiple_extended_formulae_dirty(vec![&generic, &text, &text], g, &sym)
    );
    if batch.len() != 3 || batch.iter().any(|r| r != shortcut) {
        return Verdict::Fail(fail(
            "C12:shortcut-differs-in-batch",
            format!("batch [`{generic}`, `{text}`, `{text}`]: some position differs from the single evaluation"),
            case,
        ));
    }
    if !f.has_wild_or_domain() {
        let plain = call_ok!("C12", case, "model_check_formula_dirty", model_check_formula_dirty(&text, g));
        if &plain != shortcut {
            return Verdict::Fail(fail("C12:plain-differs", format!("`{text}`: plain and extended entry points differ"), case));
        }
    }
    let nontrivial = classes.iter().any(|c| {
        c == "position:below-root" || c == "position:inside-quantifier-scope" || c == "position:inside-restricted-scope"
    });
    classes.extend(net_classes(net));
    Verdict::Pass(CaseReport {
        nontrivial,
        key: case.key(),
        classes,
        sample: case.sample(),
    })
}

impl Property for C12 {
    type Raw = crate::scale::WithMid<RawSem>;
    fn id(&self) -> &'static str {
        "C12"
    }
    fn rule(&self) -> String {
        "random network x closed extended formula in which the two patterns and near-misses (other variable, domain on the binder, extra operator, swapped AG/EF) are planted at random positions: root, under every operator, inside quantifier scopes with any binder name, inside domain-restricted scopes; networks with constrained parameters. Oracle: tool(original) == tool(pattern-defeating rewrite), alone and in a batch [rewrite, original, original]; point-wise comparison with the explicit evaluator (32 colours) through the 4 extended entry points. ~1 % of the random cases are generated 7-10-variable networks, and a deterministic stage runs 30 / 300 pattern-rich formulae on the three bundled models that afford a state variable; there the generic meaning is computed by the reference symbolic evaluator (refsym.rs, no shortcuts; calibrated against the explicit one at the start of the run). Non-trivial: a true pattern occurs below the root or inside a scope (small cases); temporal or hybrid operator with a result that is neither empty nor everything (scale cases).".into()
    }
    fn assumptions(&self) -> Vec<String> {
        vec!["same trusted base as C01/C02".into(), "`{x} & {x}` in place of `{x}` is logically identical and is not recognised as a pattern (verified by reading the recogniser; if the recogniser is extended this rewrite must be revisited)".into()]
    }
    fn cases(&self, tier: Tier) -> u32 {
        tier.pick(30_000, 1_000_000)
    }
    fn strategy(&self, tier: Tier) -> BoxedStrategy<crate::scale::WithMid<RawSem>> {
        crate::scale::with_mid(raw_sem_weighted(tier.pick(3, 4), 1..=1, 5, tier.pick(14, 20), 10), tier.pick(99, 249), 10, tier.pick(600, 2500))
    }
    fn check_raw(&self, raw: &crate::scale::WithMid<RawSem>) -> Verdict {
        let raw = match raw {
            crate::scale::WithMid::Small(r) => r,
            // mid-size networks: the generic evaluation is the reference symbolic evaluator's
            crate::scale::WithMid::Mid(raw, ms) => return crate::scale::check_mid("C12", raw, *ms, FCfg::EXTENDED_WEAK),
        };
        let resolved = resolve_sem_with(raw, FCfg::EXTENDED_WEAK, |env, raws| {
            let f = crate::gen::resolve_f(&raws[0], env);
            let mut classes = vec![];
            classify(&f, 0, false, false, &mut classes);
            if !classes.is_empty() {
                return vec![f];
            }
            // no pattern was generated: plant one next to the formula
            let pat = if raw.extra_k % 2 == 0 {
                F::hyb(HybOp::Bind, "x", None, F::un(UnOp::AG, F::un(UnOp::EF, F::var("x"))))
            } else {
                F::hyb(HybOp::Bind, "x", None, F::un(UnOp::AX, F::var("x")))
            };
            let op = BIN_OPS[(raw.extra_k as usize * 5 + f.size()) % 9];
            vec![F::bin(op, f, pat)]
        });
        match resolved {
            Err(r) => Verdict::Discard(r),
            Ok((case, fs, net)) => check(&case, &net, &fs[0]),
        }
    }
    fn replay(&self, case: &Value) -> Verdict {
        if let Some(v) = crate::scale::replay_scale("C12", case) {
            return v;
        }
        replay_with(case, |case, net, fs| check(case, net, &fs[0]))
    }
    fn extra_stages(&self, tier: Tier, seed: u64, stats: &mut Stats) -> Option<Failure> {
        // bundled models small enough for a state variable: pattern-rich formulae against the
        // reference symbolic evaluator (which has no shortcut for the patterns)
        crate::scale::calibrate(seed, tier.pick(1500, 20_000), FCfg::EXTENDED_WEAK, stats);
        crate::scale::bundled_scale_stage(
            "C12",
            &crate::scale::SCALE_HYBRID_OK,
            tier.pick(30, 300),
            seed,
            std::time::Duration::from_secs(tier.pick(5, 30)),
            FCfg::EXTENDED_WEAK,
            10,
            stats,
        )
    }
}
