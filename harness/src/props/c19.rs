//! C19 — the aeon-to-bnet converter preserves the family of update functions.
//! Reference model: truth-table families.  For every original variable with a regulator or an
//! update function: { truth table over the original variables | fresh inputs range over all values }
//! of the converter's output == { truth table | every instantiation of the original's unknown
//! functions, regulation constraints dropped }, both computed with the harness's own FnUpdate
//! interpreter.

use crate::engine::*;
use crate::gen::{self, RawNet};
use crate::model::{BuildErr, Net};
use crate::props::c17::bins_dir;
use biodivine_lib_param_bn::BooleanNetwork;
use proptest::prelude::*;
use serde_json::{json, Value};
use std::collections::BTreeSet;
use std::io::Write;
use std::process::{Command, Stdio};

pub struct C19;

/// bnet-compatible names (the target format's documented restriction); the last ones can collide
/// with the names the converter generates (`<symbol>_<bits>`, `<variable>_<bits>`)
pub const NAMES_C19: [&str; 12] = ["a", "b", "c", "d", "v_1", "A", "E", "x", "f_1", "a_0", "g_10", "h_"];

/// Every identifier (not `true` / `false`) is extended to `len` characters by a suffix that keeps it
/// bnet-compatible and keeps distinct names distinct.
fn lengthen_identifiers(aeon: &str, len: usize) -> String {
    let mut out = String::new();
    let mut word = String::new();
    let flush = |word: &mut String, out: &mut String| {
        if !word.is_empty() {
            if word != "true" && word != "false" && word.len() < len {
                let mut w = format!("{word}_");
                let mut i = 0;
                while w.len() < len {
                    w.push(b"long0name1with2many3chars4"[i % 26] as char);
                    i += 1;
                }
                out.push_str(&w);
            } else {
                out.push_str(word);
            }
            word.clear();
        }
    };
    for ch in aeon.chars() {
        if ch.is_alphanumeric() || ch == '_' {
            word.push(ch);
        } else {
            flush(&mut word, &mut out);
            out.push(ch);
        }
    }
    flush(&mut word, &mut out);
    out
}

fn cfail(class: &str, aeon: &str, message: String) -> Failure {
    Failure {
        class: class.to_string(),
        message,
        case: json!({"aeon": aeon}),
    }
}

/// Family of truth tables (over the `n` original variables, as bit masks over 2^n states) of update
/// function `var` of `net`, when the parameter bits range over all values. `orig` maps the original
/// variables to variable indices of `net`; the other variables of `net` are fresh constant inputs
/// and range over all values too.
fn family(net: &Net, var: usize, orig: &[Option<usize>]) -> BTreeSet<u64> {
    let n = orig.len();
    let others: Vec<usize> = (0..net.n).filter(|i| !orig.contains(&Some(*i))).collect();
    let mut out = BTreeSet::new();
    let colours = if net.update_uses_params(var) { 1u64 << net.p } else { 1 };
    for colour in 0..colours {
        for inputs in 0..(1u64 << others.len()) {
            let mut table = 0u64;
            for s in 0..(1usize << n) {
                let mut state = 0usize;
                for (j, v) in orig.iter().enumerate() {
                    // an original variable that does not occur in this network cannot influence it
                    if let Some(v) = v {
                        if (s >> j) & 1 == 1 {
                            state |= 1 << v;
                        }
                    }
                }
                for (j, v) in others.iter().enumerate() {
                    if (inputs >> j) & 1 == 1 {
                        state |= 1 << v;
                    }
                }
                if net.update_value(var, state, colour) {
                    table |= 1 << s;
                }
            }
            out.insert(table);
        }
    }
    out
}

pub fn check_aeon(aeon: &str) -> Verdict {
    let bn = match BooleanNetwork::try_from(aeon) {
        Ok(b) => b,
        Err(_) => return Verdict::Discard("aeon-not-parsed"),
    };
    // the original with regulation constraints dropped
    let free = bn.remove_static_constraints();
    let orig = match Net::from_bn(free, aeon.to_string(), 0) {
        Ok(n) => n,
        Err(BuildErr::TooLarge(_)) => return Verdict::Discard("too-large"),
        Err(_) => return Verdict::Discard("original-not-usable"),
    };
    // run the converter
    let bin = format!("{}/convert-aeon-to-bnet", bins_dir());
    let mut child = match Command::new(&bin).stdin(Stdio::piped()).stdout(Stdio::piped()).stderr(Stdio::piped()).spawn() {
        Ok(c) => c,
        Err(e) => harness_error(&format!("cannot run {bin}: {e}")),
    };
    child.stdin.take().unwrap().write_all(aeon.as_bytes()).unwrap();
    let out = child.wait_with_output().expect("converter output");
    let stdout = String::from_utf8_lossy(&out.stdout).to_string();
    let stderr = String::from_utf8_lossy(&out.stderr).to_string();
    if out.status.code() != Some(0) {
        let first = stderr.lines().find(|l| !l.trim().is_empty() && !l.contains("panicked at")).unwrap_or("").trim().to_string();
        let site = stderr
            .lines()
            .find(|l| l.contains("panicked at"))
            .and_then(|l| l.split("panicked at ").nth(1))
            .unwrap_or("")
            .trim_end_matches(':')
            .to_string();
        return Verdict::Fail(cfail(
            &format!("C19:converter-crash:{}", site.split(':').take(2).collect::<Vec<_>>().join(":")),
            aeon,
            format!("the converter exited with {:?}: {first}", out.status.code()),
        ));
    }
    let conv_bn = match BooleanNetwork::try_from_bnet(&stdout) {
        Ok(b) => b,
        Err(e) => {
            return Verdict::Fail(cfail("C19:output-not-bnet", aeon, format!("converter output is not readable as bnet: {e}\n{stdout}")))
        }
    };
    let conv = match Net::from_bn_with_limit(conv_bn.remove_static_constraints(), stdout.clone(), 0, 14) {
        Ok(n) => n,
        Err(BuildErr::TooLarge(_)) => return Verdict::Discard("too-large"),
        Err(e) => return Verdict::Fail(cfail("C19:output-not-usable", aeon, format!("{e:?}\n{stdout}"))),
    };
    if conv.p != 0 {
        // inputs are variables without function: lib-param-bn gives them implicit parameters of arity 0,
        // which `family` enumerates like any parameter bit
    }
    // original variables keep their names; a variable with neither regulators nor a function that no
    // output function mentions has no representation in bnet and may be absent
    let mut map: Vec<Option<usize>> = vec![];
    for name in &orig.var_names {
        let pos = conv.var_names.iter().position(|n| n == name);
        if pos.is_none() {
            let v = bn.as_graph().find_variable(name).unwrap();
            if !(bn.regulators(v).is_empty() && bn.get_update_function(v).is_none()) {
                return Verdict::Fail(cfail("C19:variable-lost", aeon, format!("variable {name} does not occur in the output\n{stdout}")));
            }
        }
        map.push(pos);
    }
    let mut unknown_with_args = false;
    for (i, name) in orig.var_names.iter().enumerate() {
        let v = bn.as_graph().find_variable(name).unwrap();
        let cv = match conv_bn.as_graph().find_variable(name) {
            Some(cv) => cv,
            None => continue, // absent free input, see above
        };
        let has_fn = bn.get_update_function(v).is_some();
        let has_reg = !bn.regulators(v).is_empty();
        if !has_fn && !has_reg {
            // remains a free input
            if conv_bn.get_update_function(cv).is_some() {
                return Verdict::Fail(cfail("C19:input-became-target", aeon, format!("{name} has neither regulators nor a function but got one:\n{stdout}")));
            }
            continue;
        }
        if conv_bn.get_update_function(cv).is_none() {
            return Verdict::Fail(cfail("C19:function-missing", aeon, format!("{name} has no update function in the output\n{stdout}")));
        }
        let want = family(&orig, i, &(0..orig.n).map(Some).collect::<Vec<_>>());
        let got = family(&conv, map[i].unwrap(), &map);
        if want != got {
            return Verdict::Fail(cfail(
                "C19:family-differs",
                aeon,
                format!(
                    "variable {name}: the output's update function ranges over {} functions of the original variables, the input's over {} (truth tables {:?} vs {:?})\n{stdout}",
                    got.len(),
                    want.len(),
                    got.iter().take(6).collect::<Vec<_>>(),
                    want.iter().take(6).collect::<Vec<_>>()
                ),
            ));
        }
        if want.len() > 2 {
            unknown_with_args = true;
        }
    }
    // no other targets
    for (j, name) in conv.var_names.iter().enumerate() {
        if !map.contains(&Some(j)) {
            let cv = conv_bn.as_graph().find_variable(name).unwrap();
            if conv_bn.get_update_function(cv).is_some() {
                return Verdict::Fail(cfail("C19:extra-target", aeon, format!("fresh variable {name} has an update function\n{stdout}")));
            }
        }
    }
    let classes = vec![
        format!("vars={}", orig.n),
        format!("fresh-inputs={}", conv.n.saturating_sub(orig.n).min(12)),
        format!("param-bits={}", orig.p.min(12)),
    ];
    Verdict::Pass(CaseReport {
        nontrivial: unknown_with_args,
        key: hash_of(aeon),
        classes,
        sample: json!({"aeon": aeon, "bnet": stdout}),
    })
}

impl Property for C19 {
    type Raw = RawNet;
    fn id(&self) -> &'static str {
        "C19"
    }
    fn rule(&self) -> String {
        "each case runs the convert-aeon-to-bnet binary built from /repo's working tree on a random aeon network (1-4 variables with bnet-compatible names, a share of names that can collide with generated ones, a share of cases with all identifiers 20-90 characters long; implicit functions with <= 3 regulators; explicit functions with uninterpreted symbols of arity 0-2, shared between variables, nested, applied to expressions; regulation constraints of any kind) and reloads the output with try_from_bnet. Oracle per variable with a regulator or function: set of truth tables over the original variables as the fresh inputs range over all values == set of truth tables as the unknown functions range over all instantiations (constraints dropped); variables with neither stay inputs; no other targets. Non-trivial: some variable's family has more than 2 members (an unknown function of arity >= 1).".into()
    }
    fn assumptions(&self) -> Vec<String> {
        vec![
            "the deciding oracle is per variable, as the statement is; equality of the joint family over all variables is not asserted".into(),
            "remove_static_constraints / try_from_bnet of lib-param-bn and the harness's FnUpdate interpreter are trusted".into(),
        ]
    }
    fn cases(&self, tier: Tier) -> u32 {
        tier.pick(6_000, 200_000)
    }
    fn max_shrink_iters(&self) -> u32 {
        400
    }
    fn strategy(&self, _tier: Tier) -> BoxedStrategy<RawNet> {
        gen::raw_net(4)
    }
    fn check_raw(&self, raw: &RawNet) -> Verdict {
        let mut aeon = gen::resolve_net_with(raw, &NAMES_C19, 6);
        // in a share of the cases: an explicit zero-arity parameter whose name looks like a row
        // constant the converter generates for another function (`f_1`, `g_10`, `<var>_0`, ...)
        let sel = raw.names.get(3).copied().unwrap_or(0);
        if sel % 3 == 0 {
            let vars: Vec<String> = match BooleanNetwork::try_from(aeon.as_str()) {
                Ok(bn) => bn.variables().map(|v| bn.get_variable_name(v).clone()).collect(),
                Err(_) => vec![],
            };
            let mut candidates: Vec<String> = ["f_1", "f_0", "g_10", "g_11", "k_1", "h_", "f_1_", "g_0"]
                .iter()
                .map(|s| s.to_string())
                .collect();
            for v in &vars {
                candidates.push(format!("{v}_0"));
                candidates.push(format!("{v}_1"));
                candidates.push(format!("{v}_"));
            }
            candidates.retain(|c| !vars.contains(c));
            let c = candidates[gen::idx(sel, candidates.len())].clone();
            // append it to the first explicit update function
            let mut lines: Vec<String> = aeon.lines().map(|l| l.to_string()).collect();
            if let Some(line) = lines.iter_mut().find(|l| l.starts_with('$')) {
                let op = if sel % 2 == 0 { "&" } else { "|" };
                let neg = if sel % 5 < 2 { "!" } else { "" };
                if let Some((head, body)) = line.clone().split_once(": ") {
                    *line = format!("{head}: ({body}) {op} {neg}{c}");
                }
            }
            aeon = lines.join("\n");
        }
        // in a share of the cases: long identifiers (variables, function symbols, parameters)
        let long = [0usize, 0, 0, 0, 0, 20, 31, 32, 33, 47, 90][gen::idx(raw.names.get(2).copied().unwrap_or(0), 11)];
        if long > 0 {
            aeon = lengthen_identifiers(&aeon, long);
        }
        check_aeon(&aeon)
    }
    fn replay(&self, case: &Value) -> Verdict {
        match case.get("aeon").and_then(|a| a.as_str()) {
            Some(a) => check_aeon(a),
            None => Verdict::Discard("unreadable-case"),
        }
    }
}
