//! Entry functions of the libFuzzer targets (harness/fuzz).  The semantic oracles are the same
//! functions the proptest-driven checks use; a violation panics with a message starting with
//! `ORACLE` so that a crash artefact can be told apart from a harness problem.

use crate::engine::{install_panic_hook, Verdict};
use crate::model::Net;
use crate::props::{c05, c06, c14};
use crate::sem::SemCase;
use arbitrary::Unstructured;
use biodivine_hctl_model_checker::preprocessing::parser::parse_extended_formula;
use std::cell::RefCell;
use std::collections::HashMap;
use std::sync::Once;

static HOOK: Once = Once::new();

pub const MAX_LEN: usize = 192;
pub const MAX_NESTING: usize = 48;

/// Bounded nesting: a stack overflow aborts the process and is outside the stated domain.
fn nesting_ok(text: &str) -> bool {
    text.chars().filter(|c| matches!(c, '(' | '~' | '!' | '@' | '\\')).count() <= MAX_NESTING
        && text.matches(|c: char| c.is_alphabetic()).count() <= 4 * MAX_NESTING
}

fn report(class: &str, message: &str, input: &str) -> ! {
    // restore the default hook so that libFuzzer sees an ordinary panic
    let _ = std::panic::take_hook();
    panic!("ORACLE [{class}] {message}\ninput: {input:?}");
}

/// C05 oracle only.
pub fn parse_diff_verdict(text: &str) -> Result<(), (String, String)> {
    if text.chars().count() > MAX_LEN || !nesting_ok(text) {
        return Ok(());
    }
    if let Err(f) = c05::check_text(text) {
        return Err((f.class, f.message));
    }
    Ok(())
}

/// C06 oracle only: every accepted string gives a consistent tree that survives print -> parse.
pub fn roundtrip_verdict(text: &str) -> Result<(), (String, String)> {
    if text.chars().count() > MAX_LEN || !nesting_ok(text) {
        return Ok(());
    }
    if let Ok(Ok(t)) = crate::engine::guard(|| parse_extended_formula(text)) {
        let f = crate::ast::from_tree(&t);
        if let Err(fl) = c06::check_tree("fuzz", &f, &t) {
            return Err((fl.class, fl.message));
        }
    }
    Ok(())
}

pub fn fuzz_parse_diff(data: &[u8]) {
    HOOK.call_once(install_panic_hook);
    let text = String::from_utf8_lossy(data).to_string();
    if let Err((class, message)) = parse_diff_verdict(&text) {
        report(&class, &message, &text);
    }
}

pub fn fuzz_roundtrip(data: &[u8]) {
    HOOK.call_once(install_panic_hook);
    let text = String::from_utf8_lossy(data).to_string();
    if let Err((class, message)) = roundtrip_verdict(&text) {
        report(&class, &message, &text);
    }
}

pub const FUZZ_NETS: [&str; 4] = [
    "a -> b\nb -| a\n$a: !b",
    "a -?? a\nb ->? a",
    "a -> a\nb -? a\nc -|? b\n$b: f(c)",
    "EXa -| EXa\n$EXa: !EXa\nEXa -?? x",
];
pub const FUZZ_LABELS: [&str; 3] = ["d", "e", "p"];

thread_local! {
    static NETS: RefCell<HashMap<(usize, u16), Net>> = RefCell::new(HashMap::new());
}

/// Decode bytes into a C14 case: (network, k, label subset and sets, formula text).
pub fn decode_api_case(data: &[u8]) -> Option<SemCase> {
    let mut u = Unstructured::new(data);
    let net_i = u.int_in_range(0..=FUZZ_NETS.len() - 1).ok()?;
    let k = u.int_in_range(0..=3u16).ok()?;
    let mask: u8 = u.arbitrary().ok()?;
    let patterns: [u64; 3] = [u.arbitrary().ok()?, u.arbitrary().ok()?, u.arbitrary().ok()?];
    let rest = u.take_rest();
    let text = String::from_utf8_lossy(rest).to_string();
    if text.chars().count() > MAX_LEN || !nesting_ok(&text) || text.trim().is_empty() {
        return None;
    }
    let aeon = FUZZ_NETS[net_i].to_string();
    let mut context = std::collections::BTreeMap::new();
    // sets are normalised (clipped to valid colours / existing states) by the caller
    for (i, l) in FUZZ_LABELS.iter().enumerate() {
        if mask & (1 << i) != 0 {
            let p = patterns[i];
            let sets: Vec<u64> = (0..64u64)
                .map(|c| if (p >> (c % 64)) & 1 == 1 { p.rotate_left((c * 7 % 64) as u32) } else { 0 })
                .collect();
            context.insert(l.to_string(), sets);
        }
    }
    Some(SemCase {
        aeon,
        k,
        formulas: vec![text],
        context,
        extra: serde_json::json!({"net": net_i}),
    })
}

pub fn api_nopanic_verdict(case: &SemCase) -> Result<(), (String, String)> {
    let net_i = case.extra["net"].as_u64().unwrap_or(0) as usize % FUZZ_NETS.len();
    NETS.with(|nets| {
        let mut nets = nets.borrow_mut();
        let net = nets
            .entry((net_i, case.k))
            .or_insert_with(|| Net::build(&case.aeon, case.k).expect("fuzz network"));
        let mut case = case.clone();
        case.context = crate::sem::normalise_context(net, &case.context);
        match c14::check(&case, net) {
            Verdict::Fail(f) => Err((f.class, f.message)),
            _ => Ok(()),
        }
    })
}

pub fn fuzz_api_nopanic(data: &[u8]) {
    HOOK.call_once(install_panic_hook);
    if let Some(case) = decode_api_case(data) {
        if let Err((class, message)) = api_nopanic_verdict(&case) {
            report(&class, &message, &case.formulas[0]);
        }
    }
}
