//! Alpha-equivalence of formulae, decided by simultaneous structural recursion with a stack of
//! paired binders and a bijection on free variables (propositions, wild-card and domain labels and
//! operators are compared literally).  No canonical strings are involved, so this is independent
//! of the crate's canonisation; also an independent scope checker (C07, C14).

use crate::ast::*;

fn match_var(
    x: &str,
    y: &str,
    bound: &[(String, String)],
    free: &mut Vec<(String, String)>,
) -> bool {
    let ia = bound.iter().rposition(|p| p.0 == x);
    let ib = bound.iter().rposition(|p| p.1 == y);
    match (ia, ib) {
        (Some(i), Some(j)) => i == j,
        (None, None) => {
            let fa = free.iter().find(|p| p.0 == x);
            let fb = free.iter().find(|p| p.1 == y);
            match (fa, fb) {
                (Some(p), Some(q)) => p.1 == y && q.0 == x,
                (None, None) => {
                    free.push((x.to_string(), y.to_string()));
                    true
                }
                _ => false,
            }
        }
        _ => false,
    }
}

fn rec(a: &F, b: &F, bound: &mut Vec<(String, String)>, free: &mut Vec<(String, String)>) -> bool {
    match (a, b) {
        (F::Const(x), F::Const(y)) => x == y,
        (F::Prop(x), F::Prop(y)) => x == y,
        (F::Wild(x), F::Wild(y)) => x == y,
        (F::Var(x), F::Var(y)) => match_var(x, y, bound, free),
        (F::Un(o1, a1), F::Un(o2, b1)) => o1 == o2 && rec(a1, b1, bound, free),
        (F::Bin(o1, a1, a2), F::Bin(o2, b1, b2)) => {
            o1 == o2 && rec(a1, b1, bound, free) && rec(a2, b2, bound, free)
        }
        (F::Hyb(HybOp::Jump, x, d1, a1), F::Hyb(HybOp::Jump, y, d2, b1)) => {
            d1 == d2 && match_var(x, y, bound, free) && rec(a1, b1, bound, free)
        }
        (F::Hyb(o1, x, d1, a1), F::Hyb(o2, y, d2, b1)) => {
            if o1 != o2 || d1 != d2 || *o1 == HybOp::Jump || *o2 == HybOp::Jump {
                return false;
            }
            bound.push((x.clone(), y.clone()));
            let r = rec(a1, b1, bound, free);
            bound.pop();
            r
        }
        _ => false,
    }
}

/// `Some(bijection on free variables)` iff the formulae are equal up to consistent renaming.
pub fn alpha_eq(a: &F, b: &F) -> Option<Vec<(String, String)>> {
    let mut free = vec![];
    if rec(a, b, &mut vec![], &mut free) {
        Some(free)
    } else {
        None
    }
}

/// Alpha-equivalence of *closed* formulae / with free variables kept literally.
pub fn alpha_eq_literal_free(a: &F, b: &F) -> bool {
    match alpha_eq(a, b) {
        Some(free) => free.iter().all(|(x, y)| x == y),
        None => false,
    }
}

#[derive(Clone, Debug, PartialEq, Eq)]
pub enum ScopeError {
    FreeVariable(String),
    FreeJumpTarget(String),
    Requantified(String),
    UnknownProposition(String),
}

/// Independent scope check: which validity rule (if any) a parsed formula breaks.  Returns all
/// violations (the crate reports only the first it meets, in its own traversal order).
pub fn scope_errors(f: &F, known_props: &dyn Fn(&str) -> bool) -> Vec<ScopeError> {
    fn rec(
        f: &F,
        scope: &mut Vec<String>,
        known: &dyn Fn(&str) -> bool,
        out: &mut Vec<ScopeError>,
    ) {
        match f {
            F::Const(_) | F::Wild(_) => {}
            F::Prop(p) => {
                if !known(p) {
                    out.push(ScopeError::UnknownProposition(p.clone()));
                }
            }
            F::Var(v) => {
                if !scope.contains(v) {
                    out.push(ScopeError::FreeVariable(v.clone()));
                }
            }
            F::Un(_, a) => rec(a, scope, known, out),
            F::Bin(_, a, b) => {
                rec(a, scope, known, out);
                rec(b, scope, known, out);
            }
            F::Hyb(HybOp::Jump, v, _, a) => {
                if !scope.contains(v) {
                    out.push(ScopeError::FreeJumpTarget(v.clone()));
                }
                rec(a, scope, known, out);
            }
            F::Hyb(_, v, _, a) => {
                if scope.contains(v) {
                    out.push(ScopeError::Requantified(v.clone()));
                }
                scope.push(v.clone());
                rec(a, scope, known, out);
                scope.pop();
            }
        }
    }
    let mut out = vec![];
    rec(f, &mut vec![], known_props, &mut out);
    out
}

#[cfg(test)]
mod tests {
    use super::*;
    use crate::refparse::parse;
    fn p(s: &str) -> F {
        parse(s, true).unwrap()
    }
    #[test]
    fn alpha() {
        assert!(alpha_eq(&p("!{x}: AX {x}"), &p("!{y}: AX {y}")).is_some());
        assert!(alpha_eq(&p("!{x}: 3{y}: ({x} & {y})"), &p("!{y}: 3{x}: ({y} & {x})")).is_some());
        assert!(alpha_eq(&p("!{x}: 3{y}: ({x} & {y})"), &p("!{y}: 3{x}: ({x} & {y})")).is_none());
        assert_eq!(
            alpha_eq(&p("{x} & {y}"), &p("{a} & {b}")),
            Some(vec![("x".into(), "a".into()), ("y".into(), "b".into())])
        );
        assert!(alpha_eq(&p("{x} & {y}"), &p("{a} & {a}")).is_none());
        assert!(alpha_eq(&p("{x} & {x}"), &p("{a} & {b}")).is_none());
        assert!(alpha_eq(&p("!{x} in %d%: {x}"), &p("!{x} in %e%: {x}")).is_none());
        assert!(alpha_eq(&p("!{x}: {x}"), &p("3{x}: {x}")).is_none());
        // bound vs free
        assert!(alpha_eq(&p("(!{x}: {x}) & {x}"), &p("(!{y}: {y}) & {z}")).is_some());
        assert!(alpha_eq(&p("(!{x}: {x}) & {x}"), &p("(!{y}: {z}) & {z}")).is_none());
        assert!(alpha_eq(&p("@{x}: a"), &p("@{y}: a")).is_some());
    }
    #[test]
    fn scopes() {
        let known = |s: &str| s == "a";
        assert!(scope_errors(&p("!{x}: AX {x} & a"), &known).is_empty());
        assert_eq!(
            scope_errors(&p("!{x}: !{x}: a"), &known),
            vec![ScopeError::Requantified("x".into())]
        );
        assert_eq!(
            scope_errors(&p("(!{x}: a) & {x}"), &known),
            vec![ScopeError::FreeVariable("x".into())]
        );
        assert_eq!(
            scope_errors(&p("@{x}: b"), &known),
            vec![
                ScopeError::FreeJumpTarget("x".into()),
                ScopeError::UnknownProposition("b".into())
            ]
        );
        assert!(scope_errors(&p("(!{x}: {x}) & (!{x}: {x})"), &known).is_empty());
    }
}
