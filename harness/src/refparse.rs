//! Reference tokenizer + parser, written from README / the parser module documentation / property
//! C05, with a different structure from the crate's: a flat token stream produced by *maximal
//! runs* and a recursive-descent parser with one function per precedence level.
//!
//! grammar (hybrid operators bind weakest and may only open a formula or a parenthesised group,
//! all binary operators are right-associative):
//!   formula := hybrid* iff
//!   iff := imp ('<=>' iff)? ; imp := or ('=>' imp)? ; or := xor ('|' or)? ; xor := and ('^' xor)?
//!   and := bt ('&' and)? ; bt := un (BT bt)? ; un := UNOP un | prim ; prim := atom | '(' formula ')'

use crate::ast::*;

#[derive(Clone, Debug, PartialEq, Eq)]
pub enum Tok {
    Un(UnOp),
    Bin(BinOp),
    Hyb(HybOp, String, Option<String>),
    Word(String),
    Var(String),
    Wild(String),
    LPar,
    RPar,
}

#[derive(Clone, Debug, PartialEq, Eq)]
pub enum ParseErr {
    /// The string is not a sequence of tokens.
    Lexical(String),
    /// The tokens are not derivable from the grammar.
    Structural(String),
}

fn name_char(c: char) -> bool {
    c.is_alphanumeric() || c == '_'
}

struct Lexer {
    chars: Vec<char>,
    pos: usize,
    extended: bool,
}

impl Lexer {
    fn peek(&self) -> Option<char> {
        self.chars.get(self.pos).copied()
    }
    fn skip_ws(&mut self) {
        while let Some(c) = self.peek() {
            if c.is_whitespace() {
                self.pos += 1;
            } else {
                break;
            }
        }
    }
    fn word(&mut self) -> String {
        let start = self.pos;
        while let Some(c) = self.peek() {
            if name_char(c) {
                self.pos += 1;
            } else {
                break;
            }
        }
        self.chars[start..self.pos].iter().collect()
    }
    fn expect(&mut self, c: char, what: &str) -> Result<(), ParseErr> {
        if self.peek() == Some(c) {
            self.pos += 1;
            Ok(())
        } else {
            Err(ParseErr::Lexical(format!("expected '{c}' {what}")))
        }
    }
    /// ws* '{' name '}' ws* [ 'in' ws* '%' name '%' ws* ] ':'
    fn hybrid_header(&mut self, op: HybOp) -> Result<Tok, ParseErr> {
        self.skip_ws();
        self.expect('{', "after hybrid operator")?;
        let name = self.word();
        if name.is_empty() {
            return Err(ParseErr::Lexical("empty variable name".into()));
        }
        self.expect('}', "after variable name")?;
        self.skip_ws();
        let mut dom = None;
        if self.extended && op != HybOp::Jump && self.peek() == Some('i') {
            self.pos += 1;
            self.expect('n', "after 'i'")?;
            self.skip_ws();
            self.expect('%', "before domain name")?;
            let d = self.word();
            if d.is_empty() {
                return Err(ParseErr::Lexical("empty domain name".into()));
            }
            self.expect('%', "after domain name")?;
            self.skip_ws();
            dom = Some(d);
        }
        self.expect(':', "after hybrid operator segment")?;
        Ok(Tok::Hyb(op, name, dom))
    }

    fn run(&mut self) -> Result<Vec<Tok>, ParseErr> {
        let mut out = vec![];
        loop {
            self.skip_ws();
            let c = match self.peek() {
                None => break,
                Some(c) => c,
            };
            if name_char(c) {
                let w = self.word();
                let t = match w.as_str() {
                    "EX" => Tok::Un(UnOp::EX),
                    "AX" => Tok::Un(UnOp::AX),
                    "EF" => Tok::Un(UnOp::EF),
                    "AF" => Tok::Un(UnOp::AF),
                    "EG" => Tok::Un(UnOp::EG),
                    "AG" => Tok::Un(UnOp::AG),
                    "EU" => Tok::Bin(BinOp::EU),
                    "AU" => Tok::Bin(BinOp::AU),
                    "EW" => Tok::Bin(BinOp::EW),
                    "AW" => Tok::Bin(BinOp::AW),
                    "3" => self.hybrid_header(HybOp::Exists)?,
                    "V" => self.hybrid_header(HybOp::Forall)?,
                    _ => Tok::Word(w),
                };
                out.push(t);
                continue;
            }
            self.pos += 1;
            let t = match c {
                '~' => Tok::Un(UnOp::Not),
                '&' => Tok::Bin(BinOp::And),
                '|' => Tok::Bin(BinOp::Or),
                '^' => Tok::Bin(BinOp::Xor),
                '=' => {
                    self.expect('>', "after '='")?;
                    Tok::Bin(BinOp::Imp)
                }
                '<' => {
                    self.expect('=', "after '<'")?;
                    self.expect('>', "after '<='")?;
                    Tok::Bin(BinOp::Iff)
                }
                '(' => Tok::LPar,
                ')' => Tok::RPar,
                '!' => self.hybrid_header(HybOp::Bind)?,
                '@' => self.hybrid_header(HybOp::Jump)?,
                '\\' => {
                    let w = self.word();
                    let op = match w.as_str() {
                        "bind" => HybOp::Bind,
                        "jump" => HybOp::Jump,
                        "exists" => HybOp::Exists,
                        "forall" => HybOp::Forall,
                        _ => return Err(ParseErr::Lexical(format!("unknown operator \\{w}"))),
                    };
                    self.hybrid_header(op)?
                }
                '{' => {
                    let name = self.word();
                    if name.is_empty() {
                        return Err(ParseErr::Lexical("empty variable name".into()));
                    }
                    self.expect('}', "after variable name")?;
                    Tok::Var(name)
                }
                '%' if self.extended => {
                    let name = self.word();
                    if name.is_empty() {
                        return Err(ParseErr::Lexical("empty wild-card name".into()));
                    }
                    self.expect('%', "after wild-card name")?;
                    Tok::Wild(name)
                }
                other => return Err(ParseErr::Lexical(format!("unexpected char {other:?}"))),
            };
            out.push(t);
        }
        Ok(out)
    }
}

pub fn lex(text: &str, extended: bool) -> Result<Vec<Tok>, ParseErr> {
    let mut lx = Lexer {
        chars: text.chars().collect(),
        pos: 0,
        extended,
    };
    let toks = lx.run()?;
    // parentheses must be balanced (the crate reports this while tokenizing)
    let mut depth = 0i64;
    for t in &toks {
        match t {
            Tok::LPar => depth += 1,
            Tok::RPar => {
                depth -= 1;
                if depth < 0 {
                    return Err(ParseErr::Lexical("unmatched ')'".into()));
                }
            }
            _ => {}
        }
    }
    if depth != 0 {
        return Err(ParseErr::Lexical("unmatched '('".into()));
    }
    Ok(toks)
}

struct Parser<'a> {
    toks: &'a [Tok],
    pos: usize,
}

type PR = Result<F, ParseErr>;

fn serr<T>(msg: &str) -> Result<T, ParseErr> {
    Err(ParseErr::Structural(msg.to_string()))
}

impl Parser<'_> {
    fn peek(&self) -> Option<&Tok> {
        self.toks.get(self.pos)
    }
    fn formula(&mut self) -> PR {
        if let Some(Tok::Hyb(op, v, d)) = self.peek().cloned() {
            self.pos += 1;
            let body = self.formula()?;
            return Ok(F::Hyb(op, v, d, Box::new(body)));
        }
        self.binary(7)
    }
    /// levels 7 (iff) .. 2 (binary temporal); level 1 = unary
    fn binary(&mut self, level: u8) -> PR {
        if level == 1 {
            return self.unary();
        }
        let left = self.binary(level - 1)?;
        if let Some(Tok::Bin(op)) = self.peek().cloned() {
            if op.level() == level {
                self.pos += 1;
                let right = self.binary(level)?;
                return Ok(F::Bin(op, Box::new(left), Box::new(right)));
            }
        }
        Ok(left)
    }
    fn unary(&mut self) -> PR {
        if let Some(Tok::Un(op)) = self.peek().cloned() {
            self.pos += 1;
            let a = self.unary()?;
            return Ok(F::Un(op, Box::new(a)));
        }
        self.prim()
    }
    fn prim(&mut self) -> PR {
        match self.peek().cloned() {
            Some(Tok::Word(w)) => {
                self.pos += 1;
                Ok(match w.as_str() {
                    "true" | "True" | "1" => F::Const(true),
                    "false" | "False" | "0" => F::Const(false),
                    _ => F::Prop(w),
                })
            }
            Some(Tok::Var(v)) => {
                self.pos += 1;
                Ok(F::Var(v))
            }
            Some(Tok::Wild(w)) => {
                self.pos += 1;
                Ok(F::Wild(w))
            }
            Some(Tok::LPar) => {
                self.pos += 1;
                let f = self.formula()?;
                if self.peek() != Some(&Tok::RPar) {
                    return serr("expected ')' or an operator");
                }
                self.pos += 1;
                Ok(f)
            }
            Some(Tok::Hyb(..)) => serr("hybrid operator in the middle of a formula"),
            Some(Tok::Un(_)) => unreachable!(),
            Some(Tok::Bin(_)) => serr("binary operator without left operand"),
            Some(Tok::RPar) => serr("missing operand before ')'"),
            None => serr("missing operand at the end"),
        }
    }
}

pub fn parse_tokens(toks: &[Tok]) -> PR {
    let mut p = Parser { toks, pos: 0 };
    let f = p.formula()?;
    if p.pos != toks.len() {
        return serr("trailing tokens after a complete formula");
    }
    Ok(f)
}

pub fn parse(text: &str, extended: bool) -> PR {
    let toks = lex(text, extended)?;
    parse_tokens(&toks)
}

/// Number of tokens that must be represented by a tree node (everything except parentheses).
pub fn count_node_tokens(toks: &[Tok]) -> usize {
    toks.iter()
        .filter(|t| !matches!(t, Tok::LPar | Tok::RPar))
        .count()
}

/// A string the reference lexer reads as exactly one proposition word (and not as a constant).
pub fn is_valid_prop_identifier(s: &str) -> bool {
    matches!(lex(s, true).as_deref(), Ok([Tok::Word(w)]) if w == s
        && !matches!(s, "true" | "True" | "1" | "false" | "False" | "0"))
}

/// A non-empty name word (for variables, wild-cards and domains).
pub fn is_name_word(s: &str) -> bool {
    !s.is_empty() && s.chars().all(name_char)
}

#[cfg(test)]
mod tests {
    use super::*;
    #[test]
    fn basics() {
        assert_eq!(
            parse("!{x}: AG EF {x}", false).unwrap().canon(),
            "(!{x}: (AG (EF {x})))"
        );
        assert_eq!(
            parse("a & b | c => d <=> e", false).unwrap().canon(),
            "((((a & b) | c) => d) <=> e)"
        );
        assert_eq!(
            parse("a EU b EU c & d", false).unwrap().canon(),
            "((a EU (b EU c)) & d)"
        );
        assert_eq!(parse("EXa", false).unwrap().canon(), "EXa");
        assert_eq!(parse("EX a", false).unwrap().canon(), "(EX a)");
        assert!(parse("(a) ~ b", false).is_err());
        assert!(parse("a & !{x}: {x}", false).is_err());
        assert!(parse("3{x} in %d%: {x}", false).is_err());
        assert_eq!(
            parse("3 {x} in%d% : {x}", true).unwrap().canon(),
            "(3{x} in %d%: {x})"
        );
        assert_eq!(parse("3a", false).unwrap().canon(), "3a");
        assert!(parse("3", false).is_err());
        assert!(is_valid_prop_identifier("EXa"));
        assert!(!is_valid_prop_identifier("EX"));
        assert!(!is_valid_prop_identifier("true"));
        assert!(!is_valid_prop_identifier("V"));
    }
}
