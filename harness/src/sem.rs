//! Shared plumbing for the semantic properties: concrete cases (serialisable for replay), building
//! symbolic context sets from explicit ones, evaluating the explicit oracle, point-wise comparison.

use crate::ast::*;
use crate::engine::{hash_of, Failure};
use crate::gen::ExplicitContext;
use crate::model::{BuildErr, Net, StateSet};
use crate::oracle::{Labels, Oracle};
use crate::refparse;
use biodivine_hctl_model_checker::evaluation::LabelToSetMap;
use biodivine_lib_param_bn::symbolic_async_graph::GraphColoredVertices;
use serde::{Deserialize, Serialize};
use serde_json::{json, Value};
use std::collections::{BTreeMap, HashMap};

/// A concrete, replayable semantic case.
#[derive(Clone, Debug, Serialize, Deserialize)]
pub struct SemCase {
    pub aeon: String,
    /// number of spare symbolic variable sets of the graph
    pub k: u16,
    /// formulae as canonical text (re-read by the reference parser on replay)
    pub formulas: Vec<String>,
    /// label -> per colour (index = valuation of the parameter bits) the set of states, as bit masks
    #[serde(default)]
    pub context: BTreeMap<String, Vec<StateSet>>,
    #[serde(default)]
    pub extra: Value,
}

impl SemCase {
    pub fn to_json(&self) -> Value {
        serde_json::to_value(self).unwrap()
    }
    pub fn from_json(v: &Value) -> Result<SemCase, String> {
        serde_json::from_value(v.clone()).map_err(|e| e.to_string())
    }
    pub fn parsed(&self) -> Vec<F> {
        self.formulas
            .iter()
            .map(|t| {
                refparse::parse(t, true)
                    .unwrap_or_else(|e| panic!("case formula `{t}` not readable: {e:?}"))
            })
            .collect()
    }
    pub fn key(&self) -> u64 {
        hash_of(&(
            &self.aeon,
            self.k,
            &self.formulas,
            &self.context,
            self.extra.to_string(),
        ))
    }
    /// Short rendering for evidence samples.
    pub fn sample(&self) -> Value {
        let ctx: BTreeMap<&String, String> = self
            .context
            .iter()
            .map(|(k, v)| {
                let nonempty = v.iter().filter(|s| **s != 0).count();
                (k, format!("{} of {} colours non-empty", nonempty, v.len()))
            })
            .collect();
        json!({"aeon": self.aeon, "k": self.k, "formulas": self.formulas, "context": ctx, "extra": self.extra})
    }
}

pub fn fail(class: &str, message: String, case: &SemCase) -> Failure {
    Failure {
        class: class.to_string(),
        message,
        case: case.to_json(),
    }
}

pub fn build_net(case: &SemCase) -> Result<Net, &'static str> {
    match Net::build(&case.aeon, case.k) {
        Ok(n) => Ok(n),
        Err(BuildErr::Parse(_)) => Err("aeon-not-parsed"),
        Err(BuildErr::Unsat(_)) => Err("constraints-unsatisfiable"),
        Err(BuildErr::TooLarge(_)) => Err("too-large"),
    }
}

/// Symbolic context map (sets over state and parameter variables only, inside the unit set).
pub fn symbolic_context(net: &Net, ctx: &ExplicitContext) -> LabelToSetMap {
    let mut out: LabelToSetMap = HashMap::new();
    for (label, sets) in ctx {
        let sets = sets.clone();
        out.insert(
            label.clone(),
            net.mk_set(&move |c| sets.get(c as usize).copied().unwrap_or(0), true),
        );
    }
    out
}

/// Make a context fit the network (length = number of colours, invalid colours empty, states masked).
pub fn normalise_context(net: &Net, ctx: &ExplicitContext) -> ExplicitContext {
    ctx.iter()
        .map(|(k, v)| {
            let sets = (0..net.num_colours())
                .map(|c| {
                    if net.valid[c] {
                        v.get(c).copied().unwrap_or(0) & net.all_states()
                    } else {
                        0
                    }
                })
                .collect();
            (k.clone(), sets)
        })
        .collect()
}

pub fn prop_index(net: &Net) -> HashMap<String, usize> {
    net.var_names
        .iter()
        .enumerate()
        .map(|(i, n)| (n.clone(), i))
        .collect()
}

/// Colours on which results are compared: all valid ones when few, otherwise an even sample.
pub fn sample_colours(net: &Net, max: usize) -> Vec<u64> {
    let valid = net.valid_colours();
    if valid.len() <= max {
        return valid;
    }
    let step = valid.len() as f64 / max as f64;
    let mut out: Vec<u64> = (0..max).map(|i| valid[(i as f64 * step) as usize]).collect();
    out.push(*valid.last().unwrap());
    out.dedup();
    out
}

pub fn labels_for(ctx: &ExplicitContext, colour: u64) -> Labels {
    ctx.iter()
        .map(|(k, v)| (k.clone(), v[colour as usize]))
        .collect()
}

/// Oracle value of a closed formula for one colour.
pub fn expected(net: &Net, f: &F, ctx: &ExplicitContext, colour: u64) -> StateSet {
    let ts = net.ts(colour);
    let props = prop_index(net);
    let labels = labels_for(ctx, colour);
    Oracle {
        ts: &ts,
        props: &props,
        labels: &labels,
        memo: crate::oracle::Memo::on(),
    }
    .eval_closed(f)
}

/// Oracle values for several formulae and colours at once: result[formula][i] for colours[i].
pub fn expected_many(
    net: &Net,
    fs: &[F],
    ctx: &ExplicitContext,
    colours: &[u64],
) -> Vec<Vec<StateSet>> {
    let props = prop_index(net);
    let mut out = vec![Vec::with_capacity(colours.len()); fs.len()];
    struct Done(std::time::Instant, bool);
    impl Drop for Done {
        fn drop(&mut self) {
            if self.1 {
                eprintln!("explicit oracle done in {:?}", self.0.elapsed());
            }
        }
    }
    let _done = Done(std::time::Instant::now(), std::env::var("VERIF_TRACE_WORKER").is_ok() && std::env::var("VERIF_TRACE_SLOW").is_ok());
    let t0 = std::time::Instant::now();
    let trace = std::env::var("VERIF_TRACE_SLOW").is_ok();
    if trace && std::env::var("VERIF_TRACE_WORKER").is_ok() {
        eprintln!("explicit oracle start: n={} colours={} formulas={:?} :: {}", net.n, colours.len(), fs.iter().map(|f| f.canon()).collect::<Vec<_>>(), net.aeon.replace('\n', " ; "));
    }
    for c in colours {
        if trace && t0.elapsed().as_secs() >= 5 {
            eprintln!("slow explicit oracle: {:?} so far, n={} colours={} formulas={:?} :: {}", t0.elapsed(), net.n, colours.len(), fs.iter().map(|f| f.canon()).collect::<Vec<_>>(), net.aeon.replace('\n', " ; "));
        }
        let ts = net.ts(*c);
        let labels = labels_for(ctx, *c);
        let o = Oracle {
            ts: &ts,
            props: &props,
            labels: &labels,
            memo: crate::oracle::Memo::on(),
        };
        for (i, f) in fs.iter().enumerate() {
            out[i].push(o.eval_closed(f));
        }
    }
    out
}

pub const EXTRA_PATTERNS: [u64; 3] = [0, u64::MAX, 0xA5A5_5A5A_C3C3_3C3C];

/// Compare a raw result (living in the graph's extended context) with expected per-colour state
/// sets, on the given colours, for several settings of the extra variables.
pub fn compare_raw(
    net: &Net,
    got: &GraphColoredVertices,
    colours: &[u64],
    want: &[StateSet],
) -> Result<(), String> {
    for (i, c) in colours.iter().enumerate() {
        for extra in EXTRA_PATTERNS {
            let slice = net.slice(got, *c, extra);
            if slice != want[i] {
                let diff = slice ^ want[i];
                let s = diff.trailing_zeros() as usize;
                return Err(format!(
                    "colour [{}] state [{}] (extra variables pattern {extra:#x}): tool says {}, explicit semantics says {}; tool slice {slice:#b}, expected {:#b}",
                    net.colour_to_string(*c),
                    net.state_to_string(s),
                    (slice >> s) & 1,
                    (want[i] >> s) & 1,
                    want[i]
                ));
            }
            if net.reader.extra_vars.is_empty() {
                break;
            }
        }
    }
    Ok(())
}

/// Same for a sanitised result (canonical context of the network: no extra variables).
pub fn compare_sanitised(
    net: &Net,
    got: &GraphColoredVertices,
    colours: &[u64],
    want: &[StateSet],
) -> Result<(), String> {
    let canonical = net.graph.symbolic_context().as_canonical_context();
    if got.as_bdd().num_vars() != canonical.bdd_variable_set().num_vars() {
        return Err(format!(
            "sanitised result lives over {} BDD variables, the canonical context has {}",
            got.as_bdd().num_vars(),
            canonical.bdd_variable_set().num_vars()
        ));
    }
    let reader = crate::model::PointReader::new(&canonical, &net.param_names);
    for (i, c) in colours.iter().enumerate() {
        let slice = net.slice_in(&reader, got, *c, 0);
        if slice != want[i] {
            let diff = slice ^ want[i];
            let s = diff.trailing_zeros() as usize;
            return Err(format!(
                "sanitised result, colour [{}] state [{}]: tool says {}, explicit semantics says {}",
                net.colour_to_string(*c),
                net.state_to_string(s),
                (slice >> s) & 1,
                (want[i] >> s) & 1
            ));
        }
    }
    Ok(())
}

/// Class labels describing a network (for histograms).
pub fn net_classes(net: &Net) -> Vec<String> {
    let mut out = vec![
        format!("vars={}", net.n),
        format!(
            "colours={}",
            match net.num_valid() {
                1 => "1",
                2..=4 => "2-4",
                5..=16 => "5-16",
                17..=64 => "17-64",
                65..=256 => "65-256",
                _ => ">256",
            }
        ),
    ];
    if net.unit_is_strict() {
        out.push("unit-strict-subset".into());
    }
    out
}

pub fn formula_classes(f: &F) -> Vec<String> {
    let mut out: Vec<String> = f
        .operator_labels()
        .into_iter()
        .map(|o| format!("op:{o}"))
        .collect();
    out.push(format!("qdepth={}", f.quant_depth()));
    out
}

// ---------------------------------------------------------------------------------------------
// raw -> concrete

use crate::gen::{self, FCfg, FEnv, RawF, RawNet, RawSet};
use biodivine_lib_param_bn::BooleanNetwork;

#[derive(Clone, Debug)]
pub struct RawSem {
    pub net: RawNet,
    pub fs: Vec<RawF>,
    pub sets: Vec<RawSet>,
    pub extra_k: u8,
}

pub fn raw_sem(
    max_vars: usize,
    n_formulas: std::ops::RangeInclusive<usize>,
    depth: u32,
    size: u32,
) -> proptest::strategy::BoxedStrategy<RawSem> {
    raw_sem_weighted(max_vars, n_formulas, depth, size, 1)
}

pub fn raw_sem_weighted(
    max_vars: usize,
    n_formulas: std::ops::RangeInclusive<usize>,
    depth: u32,
    size: u32,
    pattern_weight: u32,
) -> proptest::strategy::BoxedStrategy<RawSem> {
    use proptest::prelude::*;
    (
        gen::raw_net(max_vars),
        prop::collection::vec(gen::raw_f_weighted(depth, size, pattern_weight), n_formulas),
        prop::collection::vec(gen::raw_set(), gen::LABELS.len()),
        0..3u8,
    )
        .prop_map(|(net, fs, sets, extra_k)| RawSem {
            net,
            fs,
            sets,
            extra_k,
        })
        .boxed()
}

/// Resolve a raw semantic case.  Returns the concrete case, the formulae and the built network.
pub fn resolve_sem(raw: &RawSem, cfg: FCfg) -> Result<(SemCase, Vec<F>, Net), &'static str> {
    resolve_sem_with(raw, cfg, |env, raws| gen::resolve_batch(raws, env))
}

/// Like `resolve_sem`, with a custom construction of the (closed) formulae from the raw ones.
pub fn resolve_sem_with(
    raw: &RawSem,
    cfg: FCfg,
    build: impl FnOnce(&FEnv, &[RawF]) -> Vec<F>,
) -> Result<(SemCase, Vec<F>, Net), &'static str> {
    let aeon = gen::resolve_net(&raw.net);
    let bn = BooleanNetwork::try_from(aeon.as_str()).map_err(|_| "aeon-not-parsed")?;
    let props: Vec<String> = bn
        .variables()
        .map(|v| bn.get_variable_name(v).clone())
        .collect();
    let labels: Vec<String> = if cfg.wild || cfg.domains {
        gen::LABELS.iter().map(|s| s.to_string()).collect()
    } else {
        vec![]
    };
    // quantifier nesting as deep as the explicit evaluator can afford: states^depth <= 4096
    let mut cfg = cfg;
    if cfg.max_quant_depth == 3 {
        cfg.max_quant_depth = match props.len() {
            0 | 1 => 8,
            2 => 6,
            3 => 4,
            4 => 3,
            _ => 2,
        };
    }
    let env = FEnv {
        props: &props,
        labels: &labels,
        cfg,
        binders: &gen::BINDERS,
    };
    let fs: Vec<F> = build(&env, &raw.fs);
    // nested Twin / TwinTail / Chain productions multiply: beyond ~600 nodes one case costs minutes
    // (explicit evaluation is linear in the formula per state and binding) - skipped and counted
    if fs.iter().any(|f| f.size() > 600) {
        return Err("formula-over-600-nodes");
    }
    let depth = fs.iter().map(|f| f.quant_depth()).max().unwrap_or(0);
    let k = depth as u16 + raw.extra_k as u16;
    let net = match Net::from_bn(bn, aeon.clone(), k) {
        Ok(n) => n,
        Err(BuildErr::Parse(_)) => return Err("aeon-not-parsed"),
        Err(BuildErr::Unsat(_)) => return Err("constraints-unsatisfiable"),
        Err(BuildErr::TooLarge(_)) => return Err("too-large"),
    };
    // only the labels that occur are part of the case
    let mut context = ExplicitContext::new();
    for f in &fs {
        let (w, d) = f.labels();
        for l in w.into_iter().chain(d) {
            if !context.contains_key(&l) {
                let i = gen::LABELS.iter().position(|x| *x == l).unwrap();
                context.insert(l, gen::resolve_set(&raw.sets[i], &net));
            }
        }
    }
    let case = SemCase {
        aeon,
        k,
        formulas: fs.iter().map(|f| f.canon()).collect(),
        context,
        extra: Value::Null,
    };
    Ok((case, fs, net))
}

/// Shared replay plumbing: decode the concrete case, rebuild the network, re-read the formulae.
pub fn replay_with(
    case: &Value,
    check: impl FnOnce(&SemCase, &Net, &[F]) -> crate::engine::Verdict,
) -> crate::engine::Verdict {
    use crate::engine::Verdict;
    let case = match SemCase::from_json(case) {
        Ok(c) => c,
        Err(_) => return Verdict::Discard("unreadable-case"),
    };
    let net = match build_net(&case) {
        Ok(n) => n,
        Err(r) => return Verdict::Discard(r),
    };
    let mut case = case;
    case.context = normalise_context(&net, &case.context);
    let fs = case.parsed();
    check(&case, &net, &fs)
}

/// Invalid colours (sampled) of a network.
pub fn sample_invalid_colours(net: &Net, max: usize) -> Vec<u64> {
    let invalid: Vec<u64> = (0..net.num_colours() as u64)
        .filter(|c| !net.valid[*c as usize])
        .collect();
    if invalid.len() <= max {
        return invalid;
    }
    let step = invalid.len() as f64 / max as f64;
    (0..max).map(|i| invalid[(i as f64 * step) as usize]).collect()
}
