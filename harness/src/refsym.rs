//! Reference *symbolic* HCTL evaluator: the second oracle, for networks beyond the reach of the
//! explicit-state one (`oracle.rs`: <= 6 variables, <= 12 parameter bits).
//!
//! Written from the textbook semantics directly over BDDs of lib-bdd, sharing nothing with the
//! crate's evaluator: no syntax-tree canonisation, no cache, no pattern shortcuts, no saturation
//! helper of the crate, no `SymbolicAsyncGraph::pre/post`, no `FixedPoints`:
//!  * the one-step relation is built here from the update-function BDDs (`mk_fn_update_true` /
//!    `mk_implicit_function_is_true` of the symbolic context): variable v can change in state s iff
//!    f_v(s) != s[v]; EX and AX are both written out (AX is *not* the dual of EX), a state without
//!    an enabled variable carries a self-loop;
//!  * EF/EU/AF/AU are least, EG/AG/EW/AW greatest fixed points of their unfoldings (in `fast` mode
//!    EF/EU use a chaotic per-variable iteration, AG and AW their duals, so that benchmark-size models stay
//!    affordable);
//!  * hybrid operators use one copy of the state variables per *nesting depth* of the binder (the
//!    crate numbers them by its canonical renaming), the comparator relation and projections.
//!
//! The evaluator is itself checked against the explicit-state one on small networks at the start of
//! every stage that uses it (`calibrate`); a disagreement there is a harness error, not a violation.

use crate::ast::*;
use biodivine_lib_bdd::{Bdd, BddVariable};
use biodivine_lib_param_bn::symbolic_async_graph::{GraphColoredVertices, SymbolicAsyncGraph, SymbolicContext};
use biodivine_lib_param_bn::{BooleanNetwork, VariableId};
use std::collections::HashMap;
use std::time::Instant;

pub struct RefSym<'a> {
    pub ctx: &'a SymbolicContext,
    pub unit: Bdd,
    /// per network variable: BDD variable of the state bit
    pub state_vars: Vec<BddVariable>,
    /// per network variable: states (x colours) in which the variable is enabled: f_v(s) != s[v]
    pub enabled: Vec<Bdd>,
    /// unit states without an enabled variable (computed on first use)
    sinks: std::cell::OnceCell<Bdd>,
    pub labels: &'a HashMap<String, GraphColoredVertices>,
    pub props: HashMap<String, VariableId>,
    /// spare copies available per network variable
    pub k: usize,
    pub fast: bool,
    pub deadline: Option<Instant>,
}

#[derive(Debug, Clone, PartialEq, Eq)]
pub enum RefErr {
    /// the work budget of the reference evaluator was used up (the case is skipped and counted)
    Budget,
    Unsupported(String),
}

impl<'a> RefSym<'a> {
    /// `bn` must be the network `graph` was built from; the graph must be unrestricted (its unit set
    /// constrains colours only).
    pub fn new(
        bn: &BooleanNetwork,
        graph: &'a SymbolicAsyncGraph,
        labels: &'a HashMap<String, GraphColoredVertices>,
        fast: bool,
        deadline: Option<Instant>,
    ) -> RefSym<'a> {
        let ctx = graph.symbolic_context();
        let unit = graph.unit_colored_vertices().as_bdd().clone();
        let mut state_vars = vec![];
        let mut enabled = vec![];
        let mut props = HashMap::new();
        for v in bn.variables() {
            let f = match bn.get_update_function(v) {
                Some(f) => ctx.mk_fn_update_true(f),
                None => ctx.mk_implicit_function_is_true(v, &bn.regulators(v)),
            };
            let sv = ctx.get_state_variable(v);
            state_vars.push(sv);
            enabled.push(f.xor(&ctx.mk_state_variable_is_true(v)));
            props.insert(bn.get_variable_name(v).clone(), v);
        }
        let k = bn
            .variables()
            .map(|v| ctx.extra_state_variables(v).len())
            .min()
            .unwrap_or(0);
        RefSym { ctx, unit, state_vars, enabled, sinks: std::cell::OnceCell::new(), labels, props, k, fast, deadline }
    }

    /// States of the unit set in which no variable is enabled.  The conjunction of the per-variable
    /// "not enabled" sets is taken smallest-first (the naive left-to-right order needs seconds on the
    /// networks with hundreds of variables).
    pub fn sinks(&self) -> &Bdd {
        self.sinks.get_or_init(|| self.compute_sinks(None).unwrap())
    }

    /// Compute the sinks now, giving up (None) once `limit` is exceeded.  Used as a pre-flight test:
    /// the tool computes the same set at the start of every call, at a comparable cost, and cannot
    /// be interrupted.
    pub fn sinks_within(&self, limit: std::time::Duration) -> Option<&Bdd> {
        if self.sinks.get().is_none() {
            let s = self.compute_sinks(Some(Instant::now() + limit))?;
            let _ = self.sinks.set(s);
        }
        self.sinks.get()
    }

    fn compute_sinks(&self, deadline: Option<Instant>) -> Option<Bdd> {
        let mut parts: Vec<Bdd> = self.enabled.iter().map(|e| e.not()).collect();
        parts.push(self.unit.clone());
        while parts.len() > 1 {
            if deadline.is_some_and(|d| Instant::now() > d) {
                return None;
            }
            parts.sort_by_key(|b| std::cmp::Reverse(b.size()));
            let a = parts.pop().unwrap();
            let b = parts.pop().unwrap();
            parts.push(a.and(&b));
        }
        parts.pop()
    }

    fn tick(&self) -> Result<(), RefErr> {
        match self.deadline {
            Some(d) if Instant::now() > d => Err(RefErr::Budget),
            _ => Ok(()),
        }
    }

    /// the set with state bit `i` inverted
    fn swap(&self, i: usize, a: &Bdd) -> Bdd {
        let v = self.state_vars[i];
        let lit = self.ctx.bdd_variable_set().mk_var(v);
        Bdd::if_then_else(&lit, &a.var_restrict(v, false), &a.var_restrict(v, true))
    }

    /// predecessors through variable i
    fn pre_var(&self, i: usize, a: &Bdd) -> Bdd {
        self.enabled[i].and(&self.swap(i, a)).and(&self.unit)
    }

    pub fn ex(&self, a: &Bdd) -> Bdd {
        let mut out = a.and(self.sinks());
        for i in 0..self.state_vars.len() {
            out = out.or(&self.pre_var(i, a));
        }
        out
    }

    /// all successors (the self-loop of a sink included) are in `a`
    pub fn ax(&self, a: &Bdd) -> Bdd {
        // sink: the only successor is the state itself
        let mut out = self.unit.and(&self.sinks().imp(a));
        for i in 0..self.state_vars.len() {
            out = out.and(&self.enabled[i].imp(&self.swap(i, a)));
        }
        out
    }

    fn lfp(&self, start: Bdd, step: impl Fn(&Bdd) -> Bdd) -> Result<Bdd, RefErr> {
        let mut z = start;
        loop {
            self.tick()?;
            let next = step(&z);
            if next == z {
                return Ok(z);
            }
            z = next;
        }
    }

    /// least Z with b <= Z and a & pre(Z) <= Z, by chaotic iteration over the variables
    fn eu_chaotic(&self, a: &Bdd, b: &Bdd) -> Result<Bdd, RefErr> {
        let mut z = b.clone();
        loop {
            let mut changed = false;
            for i in (0..self.state_vars.len()).rev() {
                self.tick()?;
                let add = self.pre_var(i, &z).and(a).and_not(&z);
                if !add.is_false() {
                    z = z.or(&add);
                    changed = true;
                }
            }
            if !changed {
                return Ok(z);
            }
        }
    }

    fn not(&self, a: &Bdd) -> Bdd {
        self.unit.and_not(a)
    }

    fn slot_vars(&self, slot: usize) -> Vec<BddVariable> {
        (0..self.state_vars.len())
            .map(|i| self.ctx.get_extra_state_variable(VariableId::from_index(i), slot))
            .collect()
    }

    /// state == the variable stored in `slot`
    fn equal(&self, slot: usize) -> Bdd {
        let vars = self.ctx.bdd_variable_set();
        let mut out = vars.mk_true();
        for (i, x) in self.slot_vars(slot).into_iter().enumerate().rev() {
            out = out.and(&vars.mk_var(self.state_vars[i]).iff(&vars.mk_var(x)));
        }
        out
    }

    /// a set over the state variables, re-expressed over the variables of `slot`
    fn onto_slot(&self, slot: usize, d: &Bdd) -> Bdd {
        d.and(&self.equal(slot)).exists(&self.state_vars)
    }

    fn slot_of(env: &[String], name: &str) -> Result<usize, RefErr> {
        env.iter()
            .rposition(|n| n == name)
            .ok_or_else(|| RefErr::Unsupported(format!("free variable {name}")))
    }

    fn label(&self, name: &str) -> Result<Bdd, RefErr> {
        self.labels
            .get(name)
            .map(|s| s.as_bdd().and(&self.unit))
            .ok_or_else(|| RefErr::Unsupported(format!("no context set for {name}")))
    }

    pub fn eval_closed(&self, f: &F) -> Result<GraphColoredVertices, RefErr> {
        let bdd = self.eval(f, &mut vec![])?;
        Ok(GraphColoredVertices::new(bdd, self.ctx))
    }

    pub fn eval(&self, f: &F, env: &mut Vec<String>) -> Result<Bdd, RefErr> {
        self.tick()?;
        Ok(match f {
            F::Const(true) => self.unit.clone(),
            F::Const(false) => self.ctx.mk_constant(false),
            F::Prop(p) => {
                let v = self
                    .props
                    .get(p)
                    .ok_or_else(|| RefErr::Unsupported(format!("unknown proposition {p}")))?;
                self.unit.and(&self.ctx.mk_state_variable_is_true(*v))
            }
            F::Wild(w) => self.label(w)?,
            F::Var(x) => self.unit.and(&self.equal(Self::slot_of(env, x)?)),
            F::Un(op, a) => {
                let z = self.eval(a, env)?;
                match op {
                    UnOp::Not => self.not(&z),
                    UnOp::EX => self.ex(&z),
                    UnOp::AX => self.ax(&z),
                    UnOp::EF => {
                        if self.fast {
                            self.eu_chaotic(&self.unit, &z)?
                        } else {
                            self.lfp(z.clone(), |y| z.or(&self.ex(y)))?
                        }
                    }
                    UnOp::AF => self.lfp(z.clone(), |y| z.or(&self.ax(y)))?,
                    UnOp::EG => self.lfp(z.clone(), |y| z.and(&self.ex(y)))?,
                    UnOp::AG => {
                        if self.fast {
                            self.not(&self.eu_chaotic(&self.unit, &self.not(&z))?)
                        } else {
                            self.lfp(z.clone(), |y| z.and(&self.ax(y)))?
                        }
                    }
                }
            }
            F::Bin(op, a, b) => {
                let x = self.eval(a, env)?;
                let y = self.eval(b, env)?;
                match op {
                    BinOp::And => x.and(&y),
                    BinOp::Or => x.or(&y),
                    BinOp::Xor => x.xor(&y),
                    BinOp::Imp => self.not(&x).or(&y),
                    BinOp::Iff => self.not(&x.xor(&y)),
                    BinOp::EU => {
                        if self.fast {
                            self.eu_chaotic(&x, &y)?
                        } else {
                            self.lfp(self.ctx.mk_constant(false), |z| y.or(&x.and(&self.ex(z))))?
                        }
                    }
                    BinOp::AU => self.lfp(self.ctx.mk_constant(false), |z| y.or(&x.and(&self.ax(z))))?,
                    BinOp::EW => self.lfp(self.unit.clone(), |z| y.or(&x.and(&self.ex(z))))?,
                    BinOp::AW => {
                        if self.fast {
                            // A[x W y] = ~E[~y U (~x & ~y)]
                            let ny = self.not(&y);
                            self.not(&self.eu_chaotic(&ny, &self.not(&x).and(&ny))?)
                        } else {
                            self.lfp(self.unit.clone(), |z| y.or(&x.and(&self.ax(z))))?
                        }
                    }
                }
            }
            F::Hyb(HybOp::Jump, x, _, a) => {
                let slot = Self::slot_of(env, x)?;
                let z = self.eval(a, env)?;
                // "a holds in the state stored in x": independent of the current state
                self.unit.and(&z.and(&self.equal(slot)).exists(&self.state_vars))
            }
            F::Hyb(op, x, d, a) => {
                let slot = env.len();
                if slot >= self.k {
                    return Err(RefErr::Unsupported(format!(
                        "quantifier nesting {} exceeds the {} spare variable sets of the graph",
                        slot + 1,
                        self.k
                    )));
                }
                env.push(x.clone());
                let z = self.eval(a, env);
                env.pop();
                let z = z?;
                let xs = self.slot_vars(slot);
                let dom = match d {
                    Some(d) => Some(self.label(d)?),
                    None => None,
                };
                match op {
                    HybOp::Bind => {
                        // the variable is the current state (which must lie in the domain)
                        let mut inner = z.and(&self.equal(slot));
                        if let Some(dom) = &dom {
                            inner = inner.and(dom);
                        }
                        inner.exists(&xs)
                    }
                    HybOp::Exists => {
                        let mut inner = z;
                        if let Some(dom) = &dom {
                            inner = inner.and(&self.onto_slot(slot, dom));
                        }
                        inner.exists(&xs)
                    }
                    HybOp::Forall => {
                        let mut inner = self.not(&z);
                        if let Some(dom) = &dom {
                            inner = inner.and(&self.onto_slot(slot, dom));
                        }
                        self.not(&inner.exists(&xs))
                    }
                    HybOp::Jump => unreachable!(),
                }
            }
        })
    }
}

/// Does `set` depend on a BDD variable outside the state and parameter variables?
pub fn depends_on_extras(ctx: &SymbolicContext, set: &GraphColoredVertices) -> bool {
    let support = set.as_bdd().support_set();
    ctx.all_extra_state_variables().iter().any(|v| support.contains(v))
}
