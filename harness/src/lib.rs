pub mod ast;
pub mod engine;
pub mod gen;
pub mod model;
pub mod oracle;
pub mod props;
pub mod refparse;
pub mod sem;
