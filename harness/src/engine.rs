//! Property runner: proptest driven from a binary on several worker threads, statistics, evidence
//! files, replay files, known findings, watchdog.

use proptest::strategy::BoxedStrategy;
use proptest::test_runner::{Config, RngSeed, TestCaseError, TestError, TestRunner};
use serde_json::{json, Value};
use std::cell::RefCell;
use std::collections::{BTreeMap, HashSet};
use std::hash::{Hash, Hasher};
use std::panic::{self, AssertUnwindSafe};
use std::path::PathBuf;
use std::sync::atomic::{AtomicBool, AtomicU64, Ordering};
use std::sync::{Arc, Mutex};
use std::time::{Duration, Instant};

#[derive(Clone, Copy, Debug, PartialEq, Eq)]
pub enum Tier {
    Quick,
    Thorough,
}
impl Tier {
    pub fn name(self) -> &'static str {
        match self {
            Tier::Quick => "quick",
            Tier::Thorough => "thorough",
        }
    }
    pub fn pick<T>(self, quick: T, thorough: T) -> T {
        match self {
            Tier::Quick => quick,
            Tier::Thorough => thorough,
        }
    }
}

/// Root of the verification tree (the directory holding `check`); evidence, replays, regress inputs
/// and the known-findings file live there.
pub fn verif_dir() -> PathBuf {
    PathBuf::from(std::env::var("VERIF_ROOT").unwrap_or_else(|_| "/verif".to_string()))
}

pub static CHECK_NANOS: AtomicU64 = AtomicU64::new(0);

pub struct CaseReport {
    pub nontrivial: bool,
    /// hash identifying the case (for counting distinct non-trivial cases)
    pub key: u64,
    pub classes: Vec<String>,
    /// the case written out (kept for the first few non-trivial cases only)
    pub sample: Value,
}

#[derive(Clone, Debug)]
pub struct Failure {
    /// which oracle clause / call site failed; part of the signature
    pub class: String,
    pub message: String,
    /// replayable concrete case
    pub case: Value,
}

pub enum Verdict {
    Pass(CaseReport),
    Discard(&'static str),
    Fail(Failure),
}

pub fn hash_of<T: Hash + ?Sized>(t: &T) -> u64 {
    // fixed-key hasher: the result must not depend on the process
    let mut h = Fnv(0xcbf29ce484222325);
    t.hash(&mut h);
    h.0
}
struct Fnv(u64);
impl Hasher for Fnv {
    fn finish(&self) -> u64 {
        self.0
    }
    fn write(&mut self, bytes: &[u8]) {
        for b in bytes {
            self.0 ^= *b as u64;
            self.0 = self.0.wrapping_mul(0x100000001b3);
        }
    }
}

pub fn mix(a: u64, b: u64) -> u64 {
    let mut z = a
        .wrapping_add(0x9E3779B97F4A7C15)
        .wrapping_add(b.wrapping_mul(0xBF58476D1CE4E5B9));
    z = (z ^ (z >> 30)).wrapping_mul(0xBF58476D1CE4E5B9);
    z = (z ^ (z >> 27)).wrapping_mul(0x94D049BB133111EB);
    z ^ (z >> 31)
}

// ---------------------------------------------------------------------------------------------
// panic capture

thread_local! {
    static LAST_PANIC: RefCell<Option<String>> = const { RefCell::new(None) };
}

pub fn install_panic_hook() {
    panic::set_hook(Box::new(|info| {
        let loc = info
            .location()
            .map(|l| format!("{}:{}", l.file(), l.line()))
            .unwrap_or_default();
        let msg = if let Some(s) = info.payload().downcast_ref::<&str>() {
            s.to_string()
        } else if let Some(s) = info.payload().downcast_ref::<String>() {
            s.clone()
        } else {
            "<non-string panic payload>".to_string()
        };
        LAST_PANIC.with(|p| *p.borrow_mut() = Some(format!("{msg} @ {loc}")));
    }));
}

/// Run code under test; a panic becomes `Err(message @ location)`.
pub fn guard<T>(f: impl FnOnce() -> T) -> Result<T, String> {
    LAST_PANIC.with(|p| *p.borrow_mut() = None);
    match panic::catch_unwind(AssertUnwindSafe(f)) {
        Ok(v) => Ok(v),
        Err(_) => Err(LAST_PANIC
            .with(|p| p.borrow_mut().take())
            .unwrap_or_else(|| "<panic>".to_string())),
    }
}

/// Shorten a panic message to its stable part: the source location inside /repo and the first words.
pub fn panic_site(msg: &str) -> String {
    let loc = msg.rsplit(" @ ").next().unwrap_or("");
    let loc = loc.trim_start_matches("/repo/");
    let head: String = msg.chars().take(60).collect();
    format!("{loc} [{head}]")
}

// ---------------------------------------------------------------------------------------------
// known findings

#[derive(Clone, Debug)]
pub struct KnownFinding {
    pub property: String,
    pub status: String,
    pub signature: String,
    pub what: String,
}

pub fn load_known_findings() -> Vec<KnownFinding> {
    let path = verif_dir().join("known_findings.json");
    let text = match std::fs::read_to_string(&path) {
        Ok(t) => t,
        Err(_) => return vec![],
    };
    let v: Value = serde_json::from_str(&text).expect("known_findings.json must be valid JSON");
    v["findings"]
        .as_array()
        .cloned()
        .unwrap_or_default()
        .iter()
        .map(|e| KnownFinding {
            property: e["property"].as_str().unwrap_or("").to_string(),
            status: e["status"].as_str().unwrap_or("").to_string(),
            signature: e["signature"].as_str().unwrap_or("").to_string(),
            what: e["what"].as_str().unwrap_or("").to_string(),
        })
        .collect()
}

// ---------------------------------------------------------------------------------------------
// statistics

#[derive(Default)]
pub struct Stats {
    pub evaluations: u64,
    pub nontrivial: u64,
    pub discarded: BTreeMap<String, u64>,
    pub classes: BTreeMap<String, u64>,
    pub distinct_nontrivial: HashSet<u64>,
    pub samples: Vec<Value>,
    pub excluded_known: BTreeMap<String, u64>,
    pub stages: BTreeMap<String, Value>,
    pub exhaustive: bool,
    /// non-trivial cases of enumeration stages (distinct by construction, not hashed)
    pub distinct_by_construction: u64,
}

impl Stats {
    pub fn add(&mut self, rep: CaseReport) {
        self.evaluations += 1;
        for c in rep.classes {
            *self.classes.entry(c).or_default() += 1;
        }
        if rep.nontrivial {
            self.nontrivial += 1;
            if self.distinct_nontrivial.insert(rep.key) && self.samples.len() < 8 {
                self.samples.push(rep.sample);
            }
        }
    }
    pub fn discard(&mut self, reason: &str) {
        self.evaluations += 1;
        *self.discarded.entry(reason.to_string()).or_default() += 1;
    }
    pub fn merge(&mut self, other: Stats) {
        self.evaluations += other.evaluations;
        self.nontrivial += other.nontrivial;
        for (k, v) in other.discarded {
            *self.discarded.entry(k).or_default() += v;
        }
        for (k, v) in other.classes {
            *self.classes.entry(k).or_default() += v;
        }
        for (k, v) in other.excluded_known {
            *self.excluded_known.entry(k).or_default() += v;
        }
        self.distinct_nontrivial.extend(other.distinct_nontrivial);
        self.distinct_by_construction += other.distinct_by_construction;
        self.exhaustive |= other.exhaustive;
        for s in other.samples {
            if self.samples.len() < 8 {
                self.samples.push(s);
            }
        }
        for (k, v) in other.stages {
            self.stages.insert(k, v);
        }
    }
}

// ---------------------------------------------------------------------------------------------
// the property interface

pub trait Property: Sync {
    type Raw: Clone + std::fmt::Debug;
    fn id(&self) -> &'static str;
    /// how cases are generated and what makes one non-trivial
    fn rule(&self) -> String;
    fn assumptions(&self) -> Vec<String>;
    fn cases(&self, tier: Tier) -> u32;
    fn strategy(&self, tier: Tier) -> BoxedStrategy<Self::Raw>;
    /// resolve the generated value into a concrete case and check it
    fn check_raw(&self, raw: &Self::Raw) -> Verdict;
    /// check a concrete (JSON) case, bypassing proptest
    fn replay(&self, case: &Value) -> Verdict;
    /// deterministic extra stages (bounded-exhaustive enumeration etc.); return a failure to report
    fn extra_stages(&self, _tier: Tier, _seed: u64, _stats: &mut Stats) -> Option<Failure> {
        None
    }
    /// worker threads for the random stage
    fn workers(&self) -> usize {
        16
    }
    /// seconds one case may take before the run is declared inconclusive
    fn case_timeout_s(&self) -> u64 {
        120
    }
    /// seconds the deterministic stages (enumeration, bundled models, fuzzing) may take in total
    fn extra_stage_timeout_s(&self) -> u64 {
        2400
    }
    /// bound on proptest's shrinking (lower it when one case is expensive, e.g. spawns a process)
    fn max_shrink_iters(&self) -> u32 {
        3000
    }
}

pub struct RunOutcome {
    pub stats: Stats,
    pub failure: Option<Failure>,
    pub known_hits: Vec<(String, String)>,
    pub wall_s: f64,
}

fn known_match<'a>(known: &'a [KnownFinding], id: &str, f: &Failure) -> Option<&'a KnownFinding> {
    known
        .iter()
        .find(|k| k.property == id && k.status == "finding" && k.signature == f.class)
}

/// Watchdog: each worker publishes the start time (ms since run start, 0 = idle) of its current case.
struct Watch {
    start: Instant,
    slots: Vec<AtomicU64>,
}

pub fn run_property<P: Property>(prop: &P, tier: Tier, seed: u64) -> RunOutcome {
    let t0 = Instant::now();
    let known = load_known_findings();
    let mut stats = Stats::default();
    let mut known_hits: Vec<(String, String)> = vec![];
    let id = prop.id();

    // stage 1: regression inputs and saved replays
    let mut regress_files: Vec<PathBuf> = vec![];
    for dir in ["regress", "replays"] {
        let d = verif_dir().join(dir);
        if let Ok(rd) = std::fs::read_dir(&d) {
            for e in rd.flatten() {
                let name = e.file_name().to_string_lossy().to_string();
                if name.starts_with(&format!("{id}-")) && name.ends_with(".json") {
                    regress_files.push(e.path());
                }
            }
        }
    }
    regress_files.sort();
    let mut replayed = 0u64;
    for path in &regress_files {
        let text = std::fs::read_to_string(path).unwrap_or_default();
        let v: Value = match serde_json::from_str(&text) {
            Ok(v) => v,
            Err(_) => continue,
        };
        let case = if v.get("case").is_some() { &v["case"] } else { &v };
        replayed += 1;
        match guard(|| prop.replay(case)) {
            Ok(Verdict::Pass(rep)) => stats.add(rep),
            Ok(Verdict::Discard(r)) => stats.discard(r),
            Ok(Verdict::Fail(f)) => {
                if let Some(k) = known_match(&known, id, &f) {
                    known_hits.push((k.signature.clone(), k.what.clone()));
                    *stats.excluded_known.entry(k.signature.clone()).or_default() += 1;
                } else {
                    stats.stages.insert("replayed_files".into(), json!(replayed));
                    return RunOutcome {
                        stats,
                        failure: Some(f),
                        known_hits,
                        wall_s: t0.elapsed().as_secs_f64(),
                    };
                }
            }
            Err(p) => harness_error(&format!("panic while replaying {}: {p}", path.display())),
        }
    }
    stats.stages.insert("replayed_files".into(), json!(replayed));

    // stage 2: deterministic extra stages (guarded: a hang or blow-up is inconclusive, never a violation)
    let stage_done = Arc::new(AtomicBool::new(false));
    {
        let stage_done = stage_done.clone();
        let limit = prop.extra_stage_timeout_s();
        std::thread::spawn(move || {
            let t = Instant::now();
            while !stage_done.load(Ordering::SeqCst) {
                std::thread::sleep(Duration::from_millis(500));
                if t.elapsed().as_secs() > limit {
                    println!("INCONCLUSIVE: the deterministic stages ran for more than {limit}s (hang or blow-up); no verdict");
                    std::process::exit(2);
                }
            }
        });
    }
    let extra = prop.extra_stages(tier, seed, &mut stats);
    stage_done.store(true, Ordering::SeqCst);
    if let Some(f) = extra {
        if let Some(k) = known_match(&known, id, &f) {
            known_hits.push((k.signature.clone(), k.what.clone()));
        } else {
            return RunOutcome {
                stats,
                failure: Some(f),
                known_hits,
                wall_s: t0.elapsed().as_secs_f64(),
            };
        }
    }

    // stage 3: random generation on worker threads
    let total = prop.cases(tier);
    let workers = prop.workers().max(1).min(total.max(1) as usize);
    let per_worker = total.div_ceil(workers as u32);
    let stop = Arc::new(AtomicBool::new(false));
    let finished = Arc::new(AtomicBool::new(false));
    let watch = Arc::new(Watch {
        start: Instant::now(),
        slots: (0..workers).map(|_| AtomicU64::new(0)).collect(),
    });
    let failure: Mutex<Option<(usize, Failure)>> = Mutex::new(None);
    let merged: Mutex<Stats> = Mutex::new(Stats::default());
    let known_hits_m: Mutex<Vec<(String, String)>> = Mutex::new(vec![]);
    let timeout = prop.case_timeout_s();

    {
        let watch = watch.clone();
        let finished = finished.clone();
        std::thread::spawn(move || loop {
            std::thread::sleep(Duration::from_millis(500));
            if finished.load(Ordering::SeqCst) {
                return;
            }
            let now = watch.start.elapsed().as_millis() as u64;
            for (i, slot) in watch.slots.iter().enumerate() {
                let s = slot.load(Ordering::SeqCst);
                if s != 0 && now.saturating_sub(s) > timeout * 1000 {
                    println!(
                        "INCONCLUSIVE: worker {i} spent more than {timeout}s on one case (hang or blow-up); no verdict"
                    );
                    std::process::exit(2);
                }
            }
        });
    }

    std::thread::scope(|scope| {
        for w in 0..workers {
            let stop = stop.clone();
            let watch = watch.clone();
            let failure = &failure;
            let merged = &merged;
            let known = &known;
            let known_hits_m = &known_hits_m;
            scope.spawn(move || {
                let local = RefCell::new(Stats::default());
                let first_class: RefCell<Option<String>> = RefCell::new(None);
                let last_fail: RefCell<Option<Failure>> = RefCell::new(None);
                let strategy = prop.strategy(tier);
                // development aid: VERIF_TRACE_WORKER=<w> runs only that worker's stream and prints every case before it is checked
                let trace_worker: Option<usize> = std::env::var("VERIF_TRACE_WORKER").ok().and_then(|v| v.parse().ok());
                let config = Config {
                    cases: per_worker,
                    failure_persistence: None,
                    rng_seed: RngSeed::Fixed(mix(mix(seed, hash_of(id)), w as u64)),
                    max_shrink_iters: prop.max_shrink_iters(),
                    ..Config::default()
                };
                let mut runner = TestRunner::new(config);
                let result = runner.run(&strategy, |raw| {
                    let shrinking = first_class.borrow().is_some();
                    if !shrinking && stop.load(Ordering::SeqCst) {
                        return Ok(());
                    }
                    watch.slots[w].store(
                        (watch.start.elapsed().as_millis() as u64).max(1),
                        Ordering::SeqCst,
                    );
                    if let Some(only) = trace_worker {
                        if only == w {
                            let d = format!("{raw:?}");
                            eprintln!("worker {w} case start {:.1}s: {}", watch.start.elapsed().as_secs_f64(), &d[..d.len().min(1500)]);
                        } else {
                            return Ok(());
                        }
                    }
                    let t_case = Instant::now();
                    let verdict = guard(|| prop.check_raw(&raw));
                    CHECK_NANOS.fetch_add(t_case.elapsed().as_nanos() as u64, Ordering::Relaxed);
                    if t_case.elapsed().as_secs() >= 3 && std::env::var("VERIF_TRACE_SLOW").is_ok() {
                        let d = format!("{raw:?}");
                        eprintln!("slow case {:.1}s on worker {w}: {}", t_case.elapsed().as_secs_f64(), &d[..d.len().min(300)]);
                    }
                    watch.slots[w].store(0, Ordering::SeqCst);
                    let verdict = match verdict {
                        Ok(v) => v,
                        Err(p) => harness_error(&format!(
                            "panic inside the harness (not in a guarded call): {p}\ncase: {raw:?}"
                        )),
                    };
                    match verdict {
                        Verdict::Pass(rep) => {
                            if !shrinking {
                                local.borrow_mut().add(rep);
                            }
                            Ok(())
                        }
                        Verdict::Discard(r) => {
                            if !shrinking {
                                local.borrow_mut().discard(r);
                            }
                            Ok(())
                        }
                        Verdict::Fail(f) => {
                            if let Some(k) = known_match(known, id, &f) {
                                if !shrinking {
                                    let mut l = local.borrow_mut();
                                    l.evaluations += 1;
                                    *l.excluded_known.entry(k.signature.clone()).or_default() += 1;
                                    known_hits_m
                                        .lock()
                                        .unwrap()
                                        .push((k.signature.clone(), k.what.clone()));
                                }
                                return Ok(());
                            }
                            if shrinking {
                                // only follow the same failure class while shrinking
                                if first_class.borrow().as_deref() != Some(f.class.as_str()) {
                                    return Ok(());
                                }
                            } else {
                                local.borrow_mut().evaluations += 1;
                                *first_class.borrow_mut() = Some(f.class.clone());
                                stop.store(true, Ordering::SeqCst);
                            }
                            let reason = f.class.clone();
                            *last_fail.borrow_mut() = Some(f);
                            Err(TestCaseError::fail(reason))
                        }
                    }
                });
                watch.slots[w].store(0, Ordering::SeqCst);
                if std::env::var("VERIF_TRACE_SLOW").is_ok() {
                    eprintln!("worker {w} done after {:.1} s", watch.start.elapsed().as_secs_f64());
                }
                match result {
                    Ok(()) => {}
                    Err(TestError::Fail(_, _)) => {
                        if let Some(f) = last_fail.borrow_mut().take() {
                            let mut slot = failure.lock().unwrap();
                            if slot.is_none() {
                                *slot = Some((w, f));
                            }
                        }
                    }
                    Err(TestError::Abort(r)) => {
                        harness_error(&format!("proptest aborted: {r}"));
                    }
                }
                merged.lock().unwrap().merge(local.into_inner());
            });
        }
    });
    finished.store(true, Ordering::SeqCst);
    if std::env::var("VERIF_TRACE_SLOW").is_ok() {
        eprintln!("random stage: {:.1} cpu-seconds inside check_raw, {:.1} s wall", CHECK_NANOS.load(Ordering::Relaxed) as f64 / 1e9, watch.start.elapsed().as_secs_f64());
        eprintln!("mid-size cases: {:.1} cpu-seconds in total", crate::scale::MID_NANOS.load(Ordering::Relaxed) as f64 / 1e9);
    }

    stats.merge(merged.into_inner().unwrap());
    let abandoned = crate::scale::ABANDONED_TOOL_CALLS.load(Ordering::SeqCst);
    if abandoned > 0 {
        stats.stages.insert(
            "tool_calls_abandoned_after_their_time_limit".into(),
            json!({"count": abandoned, "meaning": "scale cases skipped because the crate's call ran longer than max(20 s, 25 x the reference evaluator's time); no verdict for them"}),
        );
    }
    known_hits.extend(known_hits_m.into_inner().unwrap());
    known_hits.sort();
    known_hits.dedup();
    let failure = failure.into_inner().unwrap().map(|(w, mut f)| {
        if let Value::Object(m) = &mut f.case {
            m.insert("_worker".into(), json!(w));
        }
        f
    });
    RunOutcome {
        stats,
        failure,
        known_hits,
        wall_s: t0.elapsed().as_secs_f64(),
    }
}

/// Run `f` on a helper thread; `None` if it does not finish within `limit` (the thread is left
/// running until the process ends).  For calls into the crate on inputs of benchmark size: they
/// cannot be interrupted, and one that blows up must cost a skipped case, not the whole run.
pub fn with_time_limit<T: Send + 'static>(limit: Duration, f: impl FnOnce() -> T + Send + 'static) -> Option<T> {
    let (tx, rx) = std::sync::mpsc::channel();
    let spawned = std::thread::Builder::new().name("time-limited".into()).stack_size(64 << 20).spawn(move || {
        let _ = tx.send(f());
    });
    if spawned.is_err() {
        harness_error("cannot spawn a helper thread");
    }
    match rx.recv_timeout(limit) {
        Ok(v) => Some(v),
        Err(std::sync::mpsc::RecvTimeoutError::Timeout) => {
            crate::scale::ABANDONED_TOOL_CALLS.fetch_add(1, Ordering::SeqCst);
            None
        }
        Err(std::sync::mpsc::RecvTimeoutError::Disconnected) => harness_error("a helper thread died without a result"),
    }
}

pub fn harness_error(msg: &str) -> ! {
    println!("HARNESS-ERROR: {msg}");
    std::process::exit(2);
}

pub fn write_replay(id: &str, seed: u64, f: &Failure) -> PathBuf {
    let dir = verif_dir().join("replays");
    let _ = std::fs::create_dir_all(&dir);
    let body = json!({
        "property": id,
        "class": f.class,
        "message": f.message,
        "seed": seed,
        "case": f.case,
    });
    let h = hash_of(&format!("{}{}", f.class, f.case));
    let path = dir.join(format!("{id}-{:012x}.json", h & 0xffff_ffff_ffff));
    std::fs::write(&path, serde_json::to_string_pretty(&body).unwrap()).expect("write replay");
    path
}

pub fn write_evidence<P: Property>(prop: &P, tier: Tier, seed: u64, out: &RunOutcome) {
    let dir = verif_dir().join("evidence");
    let _ = std::fs::create_dir_all(&dir);
    let s = &out.stats;
    let mut coverage = json!({
        "evaluations": s.evaluations,
        "distinct_nontrivial": s.distinct_nontrivial.len() as u64 + s.distinct_by_construction,
        "nontrivial_total": s.nontrivial,
        "rule": prop.rule(),
        "samples": s.samples,
        "classes": s.classes,
        "discarded": s.discarded,
        "excluded_known": s.excluded_known,
        "stages": s.stages,
        "exhaustive": s.exhaustive,
    });
    if let Some(f) = &out.failure {
        coverage["violation"] = json!({"class": f.class, "message": f.message});
    }
    let body = json!({
        "property_id": prop.id(),
        "tier": tier.name(),
        "seed": seed,
        "level": "exploration",
        "coverage": coverage,
        "assumptions": prop.assumptions(),
        "wall_s": (out.wall_s * 1000.0).round() / 1000.0,
        "violations": if out.failure.is_some() { 1 } else { 0 },
    });
    let path = dir.join(format!("{}.json", prop.id()));
    std::fs::write(&path, serde_json::to_string_pretty(&body).unwrap()).expect("write evidence");
}

/// Full driver for one property: run, write evidence, print the verdict lines, return the exit code.
pub fn drive<P: Property>(prop: &P, tier: Tier, seed: u64, replay: Option<&str>) -> i32 {
    let id = prop.id();
    if let Some(path) = replay {
        let text = std::fs::read_to_string(path)
            .unwrap_or_else(|e| harness_error(&format!("cannot read {path}: {e}")));
        let v: Value = serde_json::from_str(&text)
            .unwrap_or_else(|e| harness_error(&format!("{path} is not JSON: {e}")));
        let case = if v.get("case").is_some() { &v["case"] } else { &v };
        return match guard(|| prop.replay(case)) {
            Ok(Verdict::Pass(_)) => {
                println!("replay {path}: property {id} holds on this case");
                0
            }
            Ok(Verdict::Discard(r)) => {
                println!("replay {path}: case discarded ({r})");
                0
            }
            Ok(Verdict::Fail(f)) => {
                println!("replay {path}: [{}] {}", f.class, f.message);
                println!("VIOLATION property={id} replay={path}");
                1
            }
            Err(p) => harness_error(&format!("panic while replaying: {p}")),
        };
    }
    let out = run_property(prop, tier, seed);
    write_evidence(prop, tier, seed, &out);
    let s = &out.stats;
    println!(
        "{id} {}: {} cases, {} non-trivial ({} distinct), discarded {:?}, {:.1}s",
        tier.name(),
        s.evaluations,
        s.nontrivial,
        s.distinct_nontrivial.len() as u64 + s.distinct_by_construction,
        s.discarded,
        out.wall_s
    );
    for (sig, what) in &out.known_hits {
        println!("KNOWN-FINDING: property={id} {what} [{sig}]");
    }
    if let Some(f) = &out.failure {
        let path = write_replay(id, seed, f);
        println!("[{}] {}", f.class, f.message);
        println!("VIOLATION property={id} replay={}", path.display());
        return 1;
    }
    if (s.distinct_nontrivial.len() as u64 + s.distinct_by_construction) < 2 {
        harness_error("fewer than 2 distinct non-trivial cases: the generator is broken");
    }
    0
}
