//! Development aid: reference vs tool on one aeon file (path), quantifier-free cheap formulae.
use biodivine_hctl_model_checker::mc_utils::get_extended_symbolic_graph;
use biodivine_hctl_model_checker::model_checking::model_check_formula_dirty;
use biodivine_lib_param_bn::BooleanNetwork;
use hctl_verif::bundled::*;
use hctl_verif::gen;
use hctl_verif::refsym::RefSym;
use std::collections::HashMap;
use std::time::{Duration, Instant};

fn main() {
    let args: Vec<String> = std::env::args().collect();
    let path = &args[1];
    let count: usize = args.get(2).and_then(|a| a.parse().ok()).unwrap_or(10);
    let hyb: bool = args.get(3).map(|a| a == "hyb").unwrap_or(false);
    let raws = sample_stream(&gen::raw_f_weighted(4, 10, 1), 1, count);
    let t = Instant::now();
    let bn = BooleanNetwork::try_from_file(path).unwrap();
    let g0 = get_extended_symbolic_graph(&bn, 0).unwrap();
    println!("## {path}: vars {} pbits {} build {:?}", bn.num_vars(), g0.symbolic_context().num_parameter_variables(), t.elapsed());
    let (mut tr, mut tt) = (Duration::ZERO, Duration::ZERO);
    for raw in &raws {
        let f = bundled_formula(raw, &bn, hyb);
        let k = f.quant_depth() as u16;
        let g = get_extended_symbolic_graph(&bn, k).unwrap();
        let labels = HashMap::new();
        let t = Instant::now();
        let r = RefSym::new(&bn, &g, &labels, true, Some(Instant::now() + Duration::from_secs(20)));
        let res = r.eval_closed(&f);
        let t_ref = t.elapsed();
        let t = Instant::now();
        let tool = model_check_formula_dirty(&f.canon(), &g).unwrap();
        let t_tool = t.elapsed();
        tr += t_ref; tt += t_tool;
        let agree = res.as_ref().map(|r| *r == tool).ok();
        if agree != Some(true) || t_ref > Duration::from_secs(1) || t_tool > Duration::from_secs(1) {
            println!("   k={k} ref={:?} tool={:?} agree={:?} size={} {}", t_ref, t_tool, agree, tool.as_bdd().size(), f.canon());
        }
    }
    println!("   total ref {:?} tool {:?}", tr, tt);
}
