//! Development aid: time the basic operators on each bundled model (not part of any check).
use biodivine_hctl_model_checker::model_checking::model_check_extended_formula_dirty;
use hctl_verif::bundled::*;
use proptest::strategy::{Strategy, ValueTree};
use proptest::test_runner::{Config, RngSeed, TestRunner};
use std::collections::HashMap;
use std::time::Instant;

fn main() {
    let which: Vec<usize> = std::env::args().skip(1).filter_map(|a| a.parse().ok()).collect();
    for m in which {
        let (name, bn) = load_model(m).unwrap();
        let t0 = Instant::now();
        let g = graph_for(&bn, 0).unwrap();
        println!("{name}: vars {} params {} unit colours {} (graph {:?})", bn.num_vars(), g.symbolic_context().num_parameter_variables(), g.unit_colors().approx_cardinality(), t0.elapsed());
        let mut runner = TestRunner::new(Config { rng_seed: RngSeed::Fixed(std::env::var("PSEED").ok().and_then(|s| s.parse().ok()).unwrap_or(11)), failure_persistence: None, ..Config::default() });
        let s = build_big_set(&g, &big_set().new_tree(&mut runner).unwrap().current());
        let t = build_big_set(&g, &big_set().new_tree(&mut runner).unwrap().current());
        println!("  |S| = {}, |T| = {}", s.approx_cardinality(), t.approx_cardinality());
        let mut ctx = HashMap::new();
        ctx.insert("S".to_string(), s);
        ctx.insert("T".to_string(), t);
        for f in ["EX %S%", "AX %S%", "EF %S%", "AG %S%", "EG %S%", "AF %S%", "%S% EU %T%", "%S% AU %T%", "%S% EW %T%", "%S% AW %T%"] {
            let t0 = Instant::now();
            let r = model_check_extended_formula_dirty(f, &g, &ctx).unwrap();
            println!("  {f}: {:?} -> {}", t0.elapsed(), r.approx_cardinality());
        }
    }
}
