//! Development aid: time generated "affordable" formulae on each bundled model.
use biodivine_hctl_model_checker::model_checking::model_check_formula_dirty;
use hctl_verif::bundled::*;
use hctl_verif::engine::mix;
use proptest::prelude::*;
use std::time::Instant;

fn main() {
    let args: Vec<usize> = std::env::args().skip(1).filter_map(|a| a.parse().ok()).collect();
    let (m, count) = (args[0], args.get(1).copied().unwrap_or(25));
    let seed: u64 = std::env::var("VERIF_SEED").ok().and_then(|s| s.parse().ok()).unwrap_or(0);
    let (name, bn) = load_model(m).unwrap();
    let strat = (hctl_verif::gen::raw_f(4, 10), prop::collection::vec(any::<u16>(), 1..=2));
    for (i, (raw, _)) in sample_stream(&strat, mix(seed, 2000 + m as u64), count).into_iter().enumerate() {
        let f = bundled_formula(&raw, &bn, HYBRID_OK_ON.contains(&m));
        let g = graph_for(&bn, f.quant_depth() as u16).unwrap();
        let t0 = Instant::now();
        println!("{name} #{i}: {} ...", f.canon());
        let r = model_check_formula_dirty(&f.canon(), &g).unwrap();
        println!("    {:?} -> {}", t0.elapsed(), r.approx_cardinality());
    }
}
