//! Development aid: calibrate the reference symbolic evaluator and time mid-size cases.
use hctl_verif::engine::*;
use hctl_verif::gen::{self, FCfg};
use hctl_verif::scale::*;
use std::time::{Duration, Instant};

fn main() {
    install_panic_hook();
    let args: Vec<String> = std::env::args().collect();
    let count: usize = args.get(1).and_then(|a| a.parse().ok()).unwrap_or(200);
    let seed: u64 = args.get(2).and_then(|a| a.parse().ok()).unwrap_or(1);
    let mut stats = Stats::default();
    let t0 = Instant::now();
    calibrate(seed, 200, FCfg::PLAIN, &mut stats);
    println!("calibration {:?}: {}", t0.elapsed(), stats.stages["calibration-of-reference-symbolic-evaluator"]);
    use proptest::prelude::*;
    let strat = (raw_mid(), gen::raw_f_weighted(4, 12, 1), any::<u8>());
    let raws = hctl_verif::bundled::sample_stream(&strat, seed, count);
    let mut slow = vec![];
    let (mut pass, mut nontriv, mut disc) = (0, 0, std::collections::BTreeMap::new());
    let t0 = Instant::now();
    for (net, f, k) in &raws {
        let case = match mid_case(net, f, *k) {
            Ok(c) => c,
            Err(r) => { *disc.entry(r).or_insert(0) += 1; continue; }
        };
        let t = Instant::now();
        match check_scale("P", &case, Duration::from_secs(1)) {
            Verdict::Pass(r) => { pass += 1; if r.nontrivial { nontriv += 1; } }
            Verdict::Discard(r) => { *disc.entry(r).or_insert(0) += 1; }
            Verdict::Fail(f) => { println!("FAIL {} {}\n{}", f.class, f.message, f.case); }
        }
        let e = t.elapsed();
        if e > Duration::from_millis(1500) { slow.push((e, case.formula.clone(), case.aeon.clone().unwrap().lines().count())); }
    }
    println!("{count} mid cases in {:?}: pass {pass} nontrivial {nontriv} discards {disc:?}", t0.elapsed());
    slow.sort();
    for s in slow.iter().rev().take(10) { println!("  slow {:?} {} ({} lines)", s.0, s.1, s.2); }
}
