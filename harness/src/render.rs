//! Text renderings of a formula other than the canonical one: minimal parentheses by
//! precedence / associativity, redundant parentheses, whitespace noise, long hybrid spellings,
//! alternative constant spellings.  All random decisions are read from a `Choices` stream that is
//! part of the proptest value (all-zero stream = plain minimal rendering).

use crate::ast::*;

#[derive(Clone, Debug, Default)]
pub struct Choices {
    pub data: Vec<u16>,
    pub pos: usize,
}

impl Choices {
    pub fn new(data: Vec<u16>) -> Choices {
        Choices { data, pos: 0 }
    }
    /// next choice in 0..n (0 when the stream is exhausted or empty)
    pub fn next(&mut self, n: usize) -> usize {
        if self.data.is_empty() || n <= 1 {
            return 0;
        }
        let v = self.data[self.pos % self.data.len()];
        self.pos += 1;
        ((v as usize) * n) >> 16
    }
    pub fn flag(&mut self, one_in: usize) -> bool {
        one_in > 0 && self.next(one_in) == one_in - 1
    }
}

#[derive(Clone, Copy, Debug, Default)]
pub struct Style {
    /// add parentheses that are not needed (probability 1/n per sub-formula, 0 = never)
    pub redundant_parens: usize,
    /// whitespace noise between tokens (0 = single blanks only where needed)
    pub whitespace: bool,
    /// \bind, \jump, \exists, \forall instead of ! @ 3 V (per operator, random)
    pub long_names: bool,
    /// true/1/True, false/0/False at random
    pub constant_spellings: bool,
    /// fully parenthesised like the canonical form (but subject to the other options)
    pub full_parens: bool,
}

const WS: [&str; 7] = [" ", "  ", "\t", " \t ", "\n", "\u{a0}", "\u{3000}"];

/// Level of the top operator: 0 atom, 1 unary, 2..7 binary, 8 hybrid.
fn level(f: &F) -> u8 {
    match f {
        F::Const(_) | F::Prop(_) | F::Var(_) | F::Wild(_) => 0,
        F::Un(..) => 1,
        F::Bin(op, ..) => op.level(),
        F::Hyb(..) => 8,
    }
}

struct R<'a> {
    out: Vec<String>,
    style: Style,
    ch: &'a mut Choices,
}

impl R<'_> {
    fn tok(&mut self, s: &str) {
        self.out.push(s.to_string());
    }
    fn group(&mut self, f: &F, need: bool) {
        let extra = self.style.redundant_parens > 0 && self.ch.flag(self.style.redundant_parens);
        let parens = need || extra || (self.style.full_parens && level(f) > 0);
        if parens {
            self.tok("(");
        }
        // a doubled pair now and then
        let double = parens && extra && self.ch.flag(4);
        if double {
            self.tok("(");
        }
        self.node(f);
        if double {
            self.tok(")");
        }
        if parens {
            self.tok(")");
        }
    }
    fn node(&mut self, f: &F) {
        match f {
            F::Const(b) => {
                let s = if self.style.constant_spellings {
                    let i = self.ch.next(3);
                    if *b {
                        ["true", "True", "1"][i]
                    } else {
                        ["false", "False", "0"][i]
                    }
                } else if *b {
                    "true"
                } else {
                    "false"
                };
                self.tok(s);
            }
            F::Prop(p) => self.tok(p),
            F::Var(v) => self.tok(&format!("{{{v}}}")),
            F::Wild(w) => self.tok(&format!("%{w}%")),
            F::Un(op, a) => {
                self.tok(op.text());
                // operand: atom, unary or parenthesised
                self.group(a, level(a) > 1);
            }
            F::Bin(op, a, b) => {
                let l = op.level();
                // right-associative: the left operand must bind strictly tighter
                self.group(a, level(a) >= l);
                self.tok(op.text());
                self.group(b, level(b) > l);
            }
            F::Hyb(op, v, d, a) => {
                let long = self.style.long_names && self.ch.flag(2);
                let name = if long { op.long() } else { op.short() };
                if self.style.whitespace {
                    // the header is several lexical pieces between which whitespace is optional
                    self.out.push(name.to_string());
                    self.out.push(format!("\u{2}{{{v}}}"));
                    if let Some(d) = d {
                        self.out.push("\u{2}in".to_string());
                        self.out.push(format!("\u{2}%{d}%"));
                    }
                    self.out.push("\u{2}:".to_string());
                } else {
                    let dom = d.as_ref().map(|d| format!(" in %{d}%")).unwrap_or_default();
                    let sep = if long { " " } else { "" };
                    self.out.push(format!("{name}{sep}{{{v}}}{dom}:"));
                }
                // the body extends to the end of the group: never needs parentheses
                self.group(a, false);
            }
        }
    }
}

fn is_name_char(c: char) -> bool {
    c.is_alphanumeric() || c == '_'
}

/// Join lexical pieces.  A separator is *required* only where gluing two pieces would merge two
/// words; pieces marked \u{2} continue a hybrid header.
fn join(pieces: &[String], style: Style, ch: &mut Choices) -> String {
    let mut s = String::new();
    for (i, p) in pieces.iter().enumerate() {
        let text = p.strip_prefix('\u{2}').unwrap_or(p.as_str());
        if i > 0 {
            let prev_last = s.chars().last().unwrap();
            let next_first = text.chars().next().unwrap();
            let required = is_name_char(prev_last) && is_name_char(next_first);
            if style.whitespace {
                let k = ch.next(WS.len() + 3);
                if k < WS.len() {
                    s.push_str(WS[k]);
                } else if required {
                    s.push(' ');
                }
            } else if required || !(prev_last == '(' || text == ")" || prev_last == '~') {
                s.push(' ');
            }
        }
        s.push_str(text);
    }
    s
}

/// Render with the given style; all randomness from `ch`.
pub fn render(f: &F, style: Style, ch: &mut Choices) -> String {
    let mut r = R {
        out: vec![],
        style,
        ch,
    };
    // the whole formula may get redundant parentheses as well
    r.group(f, false);
    let pieces = r.out;
    let mut text = join(&pieces, style, ch);
    if style.whitespace {
        if ch.flag(3) {
            text.insert(0, ' ');
        }
        if ch.flag(3) {
            text.push_str(" \t");
        }
    }
    text
}

/// Minimal parentheses, single blanks.
pub fn render_min(f: &F) -> String {
    render(f, Style::default(), &mut Choices::default())
}

#[cfg(test)]
mod tests {
    use super::*;
    use crate::refparse::parse;

    #[test]
    fn min_rendering_round_trips() {
        for t in [
            "!{x}: AG EF {x}",
            "(a & b) & c",
            "a & b & c",
            "(a EU b) EU c",
            "a EU b EU c",
            "~(a & b) | EX (a => b)",
            "(!{x}: a) & b",
            "a & (!{x}: a & b)",
            "EX (3{x} in %d%: @{x}: a <=> %w%)",
            "(a <=> b) <=> (a => (b => a))",
            "~ ~ EX ~a",
        ] {
            let f = parse(t, true).unwrap();
            let r = render_min(&f);
            assert_eq!(parse(&r, true).unwrap(), f, "{t} -> {r}");
        }
    }
}
