//! Explicit-state HCTL evaluator over one colour's transition system.
//!
//! Textbook semantics written directly: EF/EU/AF/AU are least, EG/AG/EW/AW greatest fixed points of
//! their one-step unfoldings over EX ("some successor") and AX ("all successors") — A-operators are
//! *not* derived from E-operators by complementation —, hybrid operators by brute force over all
//! states, restricted domains and wild-cards as property C02 states them.  No caching, no
//! shortcuts: nothing here shares a mechanism with the crate's evaluator.

use crate::ast::*;
use crate::model::{StateSet, Ts};
use std::collections::HashMap;

/// Explicit context sets for one colour: label -> set of states.
pub type Labels = HashMap<String, StateSet>;

pub struct Oracle<'a> {
    pub ts: &'a Ts,
    /// proposition name -> variable index
    pub props: &'a HashMap<String, usize>,
    pub labels: &'a Labels,
    /// Results of temporal and hybrid sub-formulae, keyed by (node, values of the node's *free*
    /// variables): the value of a sub-formula depends on nothing else, so a closed sub-formula under
    /// k quantifiers is evaluated once instead of states^k times.  Purely a time saver: `plain()`
    /// switches it off, and a unit test compares both on random formulae.
    pub memo: Memo,
}

#[derive(Default)]
pub struct Memo {
    enabled: std::cell::Cell<bool>,
    results: std::cell::RefCell<HashMap<(usize, Vec<usize>), StateSet>>,
    free_vars: std::cell::RefCell<HashMap<usize, Vec<String>>>,
}

impl Memo {
    pub fn on() -> Memo {
        let m = Memo::default();
        m.enabled.set(true);
        m
    }
    pub fn off() -> Memo {
        Memo::default()
    }
    fn clear(&self) {
        self.results.borrow_mut().clear();
        self.free_vars.borrow_mut().clear();
    }
}

fn lfp(mut y: StateSet, step: impl Fn(StateSet) -> StateSet) -> StateSet {
    loop {
        let next = step(y);
        if next == y {
            return y;
        }
        y = next;
    }
}

impl Oracle<'_> {
    fn prop_set(&self, name: &str) -> StateSet {
        let i = *self
            .props
            .get(name)
            .unwrap_or_else(|| panic!("oracle: unknown proposition {name}"));
        let mut out = 0;
        for s in 0..self.ts.num_states() {
            if (s >> i) & 1 == 1 {
                out |= 1 << s;
            }
        }
        out
    }

    fn label(&self, name: &str) -> StateSet {
        *self
            .labels
            .get(name)
            .unwrap_or_else(|| panic!("oracle: no context set for label {name}"))
    }

    pub fn eval_closed(&self, f: &F) -> StateSet {
        // node addresses identify sub-formulae only while this tree is borrowed
        self.memo.clear();
        let out = self.eval(f, &mut vec![]);
        self.memo.clear();
        out
    }

    pub fn eval(&self, f: &F, env: &mut Vec<(String, usize)>) -> StateSet {
        let worth = self.memo.enabled.get()
            && match f {
                F::Un(op, _) => *op != UnOp::Not,
                F::Bin(op, _, _) => op.is_temporal(),
                F::Hyb(..) => true,
                _ => false,
            };
        if !worth {
            return self.eval_node(f, env);
        }
        let node = f as *const F as usize;
        let key_vals: Vec<usize> = {
            let mut fvs = self.memo.free_vars.borrow_mut();
            let fv = fvs.entry(node).or_insert_with(|| f.free_vars().into_iter().collect());
            fv.iter()
                .map(|v| {
                    env.iter()
                        .rev()
                        .find(|(n, _)| n == v)
                        .unwrap_or_else(|| panic!("oracle: free variable {v}"))
                        .1
                })
                .collect()
        };
        let key = (node, key_vals);
        if let Some(r) = self.memo.results.borrow().get(&key) {
            return *r;
        }
        let r = self.eval_node(f, env);
        self.memo.results.borrow_mut().insert(key, r);
        r
    }

    fn eval_node(&self, f: &F, env: &mut Vec<(String, usize)>) -> StateSet {
        let ts = self.ts;
        let all = ts.all();
        match f {
            F::Const(true) => all,
            F::Const(false) => 0,
            F::Prop(p) => self.prop_set(p),
            F::Wild(w) => self.label(w),
            F::Var(v) => {
                let s = env
                    .iter()
                    .rev()
                    .find(|(n, _)| n == v)
                    .unwrap_or_else(|| panic!("oracle: free variable {v}"))
                    .1;
                1 << s
            }
            F::Un(op, a) => {
                let z = self.eval(a, env);
                match op {
                    UnOp::Not => all & !z,
                    UnOp::EX => ts.ex(z),
                    UnOp::AX => ts.ax(z),
                    UnOp::EF => lfp(z, |y| z | ts.ex(y)),
                    UnOp::AF => lfp(z, |y| z | ts.ax(y)),
                    UnOp::EG => lfp(z, |y| z & ts.ex(y)),
                    UnOp::AG => lfp(z, |y| z & ts.ax(y)),
                }
            }
            F::Bin(op, a, b) => {
                let x = self.eval(a, env);
                let y = self.eval(b, env);
                match op {
                    BinOp::And => x & y,
                    BinOp::Or => x | y,
                    BinOp::Xor => x ^ y,
                    BinOp::Imp => (all & !x) | y,
                    BinOp::Iff => all & !(x ^ y),
                    // least fixed points, started from the bottom element
                    BinOp::EU => lfp(0, |z| y | (x & ts.ex(z))),
                    BinOp::AU => lfp(0, |z| y | (x & ts.ax(z))),
                    // weak until: greatest fixed points, started from the top element
                    BinOp::EW => lfp(all, |z| y | (x & ts.ex(z))),
                    BinOp::AW => lfp(all, |z| y | (x & ts.ax(z))),
                }
            }
            F::Hyb(HybOp::Jump, v, _, a) => {
                let s = env
                    .iter()
                    .rev()
                    .find(|(n, _)| n == v)
                    .unwrap_or_else(|| panic!("oracle: free jump target {v}"))
                    .1;
                let z = self.eval(a, env);
                if (z >> s) & 1 == 1 {
                    all
                } else {
                    0
                }
            }
            F::Hyb(op, v, d, a) => {
                let domain = match d {
                    Some(d) => self.label(d),
                    None => all,
                };
                let mut out = match op {
                    HybOp::Forall => all,
                    _ => 0,
                };
                for t in 0..ts.num_states() {
                    if (domain >> t) & 1 == 0 {
                        continue;
                    }
                    env.push((v.clone(), t));
                    let z = self.eval(a, env);
                    env.pop();
                    match op {
                        HybOp::Bind => out |= z & (1 << t),
                        HybOp::Exists => out |= z,
                        HybOp::Forall => out &= z,
                        HybOp::Jump => unreachable!(),
                    }
                }
                out
            }
        }
    }
}

#[cfg(test)]
mod tests {
    use super::*;
    use crate::model::Net;
    use crate::refparse::parse;

    fn eval_on(aeon: &str, colour: u64, formula: &str) -> StateSet {
        let net = Net::build(aeon, 0).unwrap();
        let ts = net.ts(colour);
        let props: HashMap<String, usize> = net
            .var_names
            .iter()
            .enumerate()
            .map(|(i, n)| (n.clone(), i))
            .collect();
        let labels = Labels::new();
        let o = Oracle {
            ts: &ts,
            props: &props,
            labels: &labels,
            memo: Memo::on(),
        };
        let f = parse(formula, false).unwrap();
        let plain = Oracle { ts: &ts, props: &props, labels: &labels, memo: Memo::off() };
        assert_eq!(o.eval_closed(&f), plain.eval_closed(&f));
        o.eval_closed(&f)
    }

    #[test]
    fn hand_computed() {
        // one variable, negative self-loop: 0 -> 1 -> 0, no steady state
        let osc = "a -| a\n$a: !a";
        assert_eq!(eval_on(osc, 0, "a"), 0b10);
        assert_eq!(eval_on(osc, 0, "EX a"), 0b01);
        assert_eq!(eval_on(osc, 0, "AG EF a"), 0b11);
        assert_eq!(eval_on(osc, 0, "!{x}: AX {x}"), 0);
        assert_eq!(eval_on(osc, 0, "!{x}: AG EF {x}"), 0b11);
        assert_eq!(eval_on(osc, 0, "false EW a"), 0b10);
        assert_eq!(eval_on(osc, 0, "false AW a"), 0b10);
        // one variable, positive self-loop a -> a, $a: a : both states steady
        let fix = "a -> a\n$a: a";
        assert_eq!(eval_on(fix, 0, "!{x}: AX {x}"), 0b11);
        assert_eq!(eval_on(fix, 0, "EX a"), 0b10);
        assert_eq!(eval_on(fix, 0, "AX a"), 0b10);
        assert_eq!(eval_on(fix, 0, "EF a"), 0b10);
        assert_eq!(eval_on(fix, 0, "3{x}: @{x}: a"), 0b11);
        assert_eq!(eval_on(fix, 0, "V{x}: @{x}: a"), 0);
        // two variables: $a: b, $b: a ; states numbered a + 2b ; 00 and 11 steady, 01 <-> ...
        let two = "a -> b\nb -> a\n$a: b\n$b: a";
        // state 1 (a=1,b=0): a wants b=0 -> a flips to 0 (state 0); b wants a=1 -> b flips (state 3)
        assert_eq!(eval_on(two, 0, "!{x}: AX {x}"), 0b1001);
        assert_eq!(eval_on(two, 0, "EF (a & b)"), 0b1110);
        assert_eq!(eval_on(two, 0, "AF (a & b)"), 0b1000);
        assert_eq!(eval_on(two, 0, "a EU b"), 0b1110);
        assert_eq!(eval_on(two, 0, "EG ~b"), 0b0011);
        assert_eq!(eval_on(two, 0, "AG ~b"), 0b0001);
    }

    /// memoised and plain evaluation agree on generated cases (all colours sampled by the checks)
    #[test]
    fn memo_is_transparent() {
        use crate::gen::FCfg;
        use crate::sem::*;
        let raws = crate::bundled::sample_stream(&raw_sem(4, 1..=1, 5, 20), 77, 3000);
        let mut compared = 0;
        for raw in &raws {
            let Ok((case, fs, net)) = resolve_sem(raw, FCfg::EXTENDED_WEAK) else { continue };
            if fs[0].quant_depth() > 4 {
                continue;
            }
            let props = prop_index(&net);
            for c in sample_colours(&net, 4) {
                let ts = net.ts(c);
                let labels = labels_for(&case.context, c);
                let a = Oracle { ts: &ts, props: &props, labels: &labels, memo: Memo::on() }.eval_closed(&fs[0]);
                let b = Oracle { ts: &ts, props: &props, labels: &labels, memo: Memo::off() }.eval_closed(&fs[0]);
                assert_eq!(a, b, "{} on {}", case.formulas[0], case.aeon);
                compared += 1;
            }
        }
        assert!(compared > 2000);
    }
}
