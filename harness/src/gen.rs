//! Generators.  Every proptest value is a plain "raw" structure full of selectors; `resolve_*`
//! turns it into a well-formed input *by construction* (closed formulae, declared regulators,
//! parameter-bit budget), so there is no rejection and the whole case shrinks as one value.
//! Selector -> index mapping is monotone (`sel * len >> 16`) so that shrinking a selector moves
//! towards the first alternative.

use crate::ast::*;
use crate::model::{Net, StateSet};
use proptest::prelude::*;
use std::collections::BTreeMap;

pub fn idx(sel: u16, len: usize) -> usize {
    debug_assert!(len > 0);
    ((sel as usize) * len) >> 16
}

// ---------------------------------------------------------------------------------------------
// networks

/// Names that are legal aeon identifiers and legal HCTL propositions; several stress the tokenizer
/// (operator prefixes, leading digits, quantifier letters).  Never a reserved spelling.
pub const VAR_NAMES: [&str; 14] = [
    "a", "b", "c", "d", "v_1", "EXa", "A", "E", "V1", "3a", "AUx", "true_", "x", "p_2",
];

#[derive(Clone, Debug)]
pub enum RawExpr {
    Const(bool),
    Reg(u16),
    Not(Box<RawExpr>),
    Bin(u8, Box<RawExpr>, Box<RawExpr>),
    Call(u8, Vec<RawExpr>),
}

#[derive(Clone, Debug)]
pub struct RawReg {
    pub src: u16,
    pub sign: u8,
    pub observable: bool,
}

#[derive(Clone, Debug)]
pub struct RawVar {
    pub regs: Vec<RawReg>,
    pub func: Option<RawExpr>,
}

#[derive(Clone, Debug)]
pub struct RawNet {
    pub n: usize,
    pub names: Vec<u16>,
    pub vars: Vec<RawVar>,
    /// force `$v: !v` on the first variable (steady-state-free networks for C18)
    pub force_oscillator: bool,
    /// 0-2 additional frozen variables (`$z: z`): networks of up to 6 variables, many attractors
    pub frozen: u8,
}

/// Uninterpreted function symbols with fixed arities (shared between variables).
pub const FN_SYMBOLS: [(&str, usize); 4] = [("f", 1), ("g", 2), ("h", 0), ("k", 1)];

fn raw_expr() -> BoxedStrategy<RawExpr> {
    let leaf = prop_oneof![
        4 => any::<u16>().prop_map(RawExpr::Reg),
        1 => any::<bool>().prop_map(RawExpr::Const),
    ];
    leaf.prop_recursive(3, 8, 2, |inner| {
        prop_oneof![
            2 => inner.clone().prop_map(|a| RawExpr::Not(Box::new(a))),
            4 => (0..5u8, inner.clone(), inner.clone())
                .prop_map(|(op, a, b)| RawExpr::Bin(op, Box::new(a), Box::new(b))),
            3 => (0..16u8, prop::collection::vec(inner, 0..=2)).prop_map(|(k, args)| RawExpr::Call(k, args)),
        ]
    })
    .boxed()
}

fn raw_var() -> impl Strategy<Value = RawVar> {
    (
        prop::collection::vec(
            (any::<u16>(), 0..3u8, any::<bool>()).prop_map(|(src, sign, observable)| RawReg {
                src,
                sign,
                observable,
            }),
            0..=3,
        ),
        prop_oneof![
            2 => Just(None),
            3 => raw_expr().prop_map(Some),
        ],
    )
        .prop_map(|(regs, func)| RawVar { regs, func })
}

pub fn raw_net(max_vars: usize) -> BoxedStrategy<RawNet> {
    let n = match max_vars {
        1 => Just(1usize).boxed(),
        2 => prop_oneof![1 => Just(1usize), 3 => Just(2usize)].boxed(),
        3 => prop_oneof![1 => Just(1usize), 3 => Just(2usize), 4 => Just(3usize)].boxed(),
        _ => prop_oneof![1 => Just(1usize), 3 => Just(2usize), 4 => Just(3usize), 2 => Just(4usize)]
            .boxed(),
    };
    (
        n,
        prop::collection::vec(any::<u16>(), 4),
        prop::collection::vec(raw_var(), 4),
        prop::bool::weighted(0.1),
        prop_oneof![24 => Just(0u8), 2 => Just(1u8), 2 => Just(2u8), 1 => Just(3u8)],
    )
        .prop_map(|(n, names, vars, force_oscillator, frozen)| RawNet {
            n,
            names,
            vars,
            force_oscillator,
            frozen,
        })
        .boxed()
}

pub const MAX_GEN_PARAM_BITS: usize = 10;

struct ExprCtx<'a> {
    regs: &'a [String],
    budget: &'a mut usize,
    used_fns: &'a mut Vec<bool>,
    used_regs: Vec<bool>,
}

fn render_expr(e: &RawExpr, cx: &mut ExprCtx) -> String {
    match e {
        RawExpr::Const(b) => (if *b { "true" } else { "false" }).to_string(),
        RawExpr::Reg(sel) => {
            if cx.regs.is_empty() {
                "true".to_string()
            } else {
                let i = idx(*sel, cx.regs.len());
                cx.used_regs[i] = true;
                cx.regs[i].clone()
            }
        }
        RawExpr::Not(a) => format!("!{}", render_atomish(a, cx)),
        RawExpr::Bin(op, a, b) => {
            let op = ["&", "|", "^", "=>", "<=>"][*op as usize % 5];
            format!("({} {} {})", render_expr(a, cx), op, render_expr(b, cx))
        }
        RawExpr::Call(k, args) => {
            let fill = (*k as usize / FN_SYMBOLS.len()) % 4;
            let k = *k as usize % FN_SYMBOLS.len();
            let (name, arity) = FN_SYMBOLS[k];
            // without regulators: the zero-arity symbol, or a symbol applied to constants
            if cx.regs.is_empty() && k == 3 {
                if !cx.used_fns[k] {
                    if *cx.budget < 2 {
                        return "false".to_string();
                    }
                    *cx.budget -= 2;
                    cx.used_fns[k] = true;
                }
                return format!("{name}({})", if args.len() % 2 == 0 { "true" } else { "false" });
            }
            let arity = if cx.regs.is_empty() { 0 } else { arity };
            let (k, name, arity) = if arity == 0 { (2, "h", 0) } else { (k, name, arity) };
            if !cx.used_fns[k] {
                if *cx.budget < (1 << arity) {
                    return "false".to_string();
                }
                *cx.budget -= 1 << arity;
                cx.used_fns[k] = true;
            }
            if arity == 0 {
                return name.to_string();
            }
            // missing arguments: other regulators, or (fill modes 1 / 2) the first argument again,
            // plain or negated - `g(a, a)`, `g(a, !a)`
            let mut rendered: Vec<String> = vec![];
            for i in 0..arity {
                let a = match args.get(i) {
                    Some(a) => render_expr(a, cx),
                    None if i > 0 && fill == 1 => rendered[0].clone(),
                    None if i > 0 && fill == 2 => {
                        if rendered[0].starts_with('(') || !rendered[0].contains(' ') {
                            format!("!{}", rendered[0])
                        } else {
                            format!("!({})", rendered[0])
                        }
                    }
                    None => render_expr(&RawExpr::Reg((i * 30000) as u16), cx),
                };
                rendered.push(a);
            }
            format!("{}({})", name, rendered.join(", "))
        }
    }
}

/// Render one update-function expression over the given regulator names (used by `scale.rs`).
/// Returns the text and, per regulator, whether it occurs.
pub fn render_function(e: &RawExpr, regs: &[String], budget: &mut usize, used_fns: &mut Vec<bool>) -> (String, Vec<bool>) {
    let mut cx = ExprCtx { regs, budget, used_fns, used_regs: vec![false; regs.len()] };
    let text = render_expr(e, &mut cx);
    (text, cx.used_regs)
}

pub fn raw_expr_strategy() -> BoxedStrategy<RawExpr> {
    raw_expr()
}

fn render_atomish(e: &RawExpr, cx: &mut ExprCtx) -> String {
    match e {
        RawExpr::Bin(..) => render_expr(e, cx),
        _ => {
            let s = render_expr(e, cx);
            if s.starts_with('(') || !s.contains(' ') {
                s
            } else {
                format!("({s})")
            }
        }
    }
}

/// Distinct names for `n` variables.
pub fn pick_names(sels: &[u16], n: usize, pool: &[&str]) -> Vec<String> {
    let mut out: Vec<String> = vec![];
    for sel in sels.iter().take(n) {
        let mut i = idx(*sel, pool.len());
        while out.iter().any(|x| x == pool[i]) {
            i = (i + 1) % pool.len();
        }
        out.push(pool[i].to_string());
    }
    out
}

/// Render a raw network as aeon text.
pub fn resolve_net(raw: &RawNet) -> String {
    resolve_net_with(raw, &VAR_NAMES, MAX_GEN_PARAM_BITS)
}

pub fn resolve_net_with(raw: &RawNet, pool: &[&str], max_bits: usize) -> String {
    let n = raw.n.clamp(1, 4);
    let names = pick_names(&raw.names, n, pool);
    let mut lines: Vec<String> = vec![];
    let mut budget = max_bits;
    let mut used_fns = vec![false; FN_SYMBOLS.len()];
    for i in 0..n {
        let var = &raw.vars[i];
        if i == 0 && raw.force_oscillator {
            lines.push(format!("{} -| {}", names[0], names[0]));
            lines.push(format!("${}: !{}", names[0], names[0]));
            continue;
        }
        // distinct regulators
        let mut regs: Vec<(usize, u8, bool)> = vec![];
        for r in &var.regs {
            let src = idx(r.src, n);
            if !regs.iter().any(|x| x.0 == src) {
                regs.push((src, r.sign, r.observable));
            }
        }
        match &var.func {
            None => {
                // implicit function: 2^r parameter bits
                while budget < (1 << regs.len()) && !regs.is_empty() {
                    regs.pop();
                }
                if budget < (1 << regs.len()) {
                    // no budget left even for an input constant
                    lines.push(format!("${}: false", names[i]));
                    continue;
                }
                if regs.is_empty() {
                    // an input without regulators: exists only if mentioned elsewhere (handled below)
                    continue;
                }
                budget -= 1 << regs.len();
                for (src, sign, obs) in &regs {
                    lines.push(format!(
                        "{} {} {}",
                        names[*src],
                        arrow(*sign, *obs),
                        names[i]
                    ));
                }
            }
            Some(expr) => {
                let reg_names: Vec<String> = regs.iter().map(|r| names[r.0].clone()).collect();
                let mut cx = ExprCtx {
                    regs: &reg_names,
                    budget: &mut budget,
                    used_fns: &mut used_fns,
                    used_regs: vec![false; reg_names.len()],
                };
                let text = render_expr(expr, &mut cx);
                let used = cx.used_regs.clone();
                for (j, (src, sign, obs)) in regs.iter().enumerate() {
                    // a regulator that does not occur in the function cannot be observable
                    let obs = *obs && used[j];
                    lines.push(format!("{} {} {}", names[*src], arrow(*sign, obs), names[i]));
                }
                lines.push(format!("${}: {}", names[i], text));
            }
        }
    }
    // every variable must be mentioned at least once to exist; add neutral mentions for the rest
    for (i, name) in names.iter().enumerate() {
        let mentioned = lines.iter().any(|l| {
            l.split(|c: char| !(c.is_alphanumeric() || c == '_'))
                .any(|w| w == name)
        });
        if !mentioned {
            // declared as an implicit input of arity 0 if budget allows, otherwise a constant
            if budget >= 1 && i + 1 < n {
                budget -= 1;
                // regulate the next variable non-observably only if that one has an explicit function?
                // simpler and always sound: make it a constant-free input by giving it a function h-like
                lines.push(format!("${}: in_{}", name, i));
            } else {
                lines.push(format!("${}: true", name));
            }
        }
    }
    if raw.frozen >= 3 {
        // "switch network": one generated variable plus five frozen ones (>= 32 attractors per colour)
        let first: Vec<String> = lines
            .iter()
            .filter(|l| {
                l.split(|c: char| !(c.is_alphanumeric() || c == '_'))
                    .filter(|w| !w.is_empty())
                    .all(|w| w == names[0] || matches!(w, "true" | "false" | "h" | "in_0"))
            })
            .cloned()
            .collect();
        lines = if first.iter().any(|l| l.contains(names[0].as_str())) {
            first
        } else {
            vec![format!("${}: true", names[0])]
        };
        for i in 0..5 {
            lines.push(format!("zf{i} -> zf{i}"));
            lines.push(format!("$zf{i}: zf{i}"));
        }
        return lines.join("\n");
    }
    for i in 0..raw.frozen.min(2) {
        lines.push(format!("zf{i} -> zf{i}"));
        lines.push(format!("$zf{i}: zf{i}"));
    }
    lines.join("\n")
}

pub fn arrow(sign: u8, observable: bool) -> &'static str {
    match (sign % 3, observable) {
        (0, true) => "-?",
        (0, false) => "-??",
        (1, true) => "->",
        (1, false) => "->?",
        (_, true) => "-|",
        (_, false) => "-|?",
    }
}

// ---------------------------------------------------------------------------------------------
// formulae

#[derive(Clone, Debug)]
pub enum RawF {
    Const(bool),
    Prop(u16),
    Var(u16),
    Wild(u16),
    Un(u8, Box<RawF>),
    Bin(u8, Box<RawF>, Box<RawF>),
    Hyb(u8, u16, Option<u16>, Box<RawF>),
    /// the attractor / steady-state patterns and near misses (variant selector)
    Pattern(u8, u16),
    /// repeat an earlier generated sub-formula (of this formula or of an earlier one in the batch),
    /// re-instantiated in the current scope: free variables mapped to variables in scope, bound
    /// variables renamed where they would clash
    Repeat(u16, u16),
    /// two quantified copies of one body: `(Q1{v} in %d%: body) op (Q2{v'} in %d'%: body)`, the second
    /// one optionally one quantifier deeper (so that it gets another internal name); d' is the same
    /// label, another label or absent depending on the variant; optionally both bodies are jumps to
    /// their own variable, and optionally a third copy without a domain follows
    Twin(u8, u16, u8, Box<RawF>),
    /// `Q1{u}: Q2{v}: (body(u, v) op body(v, u))`: the same body twice with the two variables in
    /// exchanged roles (duplicates that differ only in variable names, as in the usual
    /// bi-stability formulae)
    TwinSwap(u8, u16, Box<RawF>),
    /// a long chain `l1 op (l2 op (... (l_n op inner)))` (or left-nested, or a chain of unary
    /// operators) with 9..32 links: long formula strings, long flat chains for the parser
    Chain(u8, u8, Vec<u16>, Box<RawF>),
    /// 4..11 directly nested quantifiers around the body (as deep as the configuration allows)
    Nest(u8, Vec<(u8, Option<u16>)>, Box<RawF>),
    /// `chain(core) op chain(core')`: two long formulae sharing a long prefix, the tails being
    /// permutations of each other (two propositions exchanged)
    TwinTail(u8, u8, Vec<u16>, Box<RawF>),
}

#[derive(Clone, Copy, Debug)]
pub struct FCfg {
    pub wild: bool,
    pub domains: bool,
    pub weak_until: bool,
    pub max_quant_depth: usize,
    pub patterns: bool,
    /// allow the `Chain` production (long formulae)
    pub long_chains: bool,
}

impl FCfg {
    pub const PLAIN: FCfg = FCfg {
        wild: false,
        domains: false,
        weak_until: false,
        max_quant_depth: 3,
        patterns: true,
        long_chains: true,
    };
    pub const PLAIN_WEAK: FCfg = FCfg {
        wild: false,
        domains: false,
        weak_until: true,
        max_quant_depth: 3,
        patterns: true,
        long_chains: true,
    };
    pub const EXTENDED: FCfg = FCfg {
        wild: true,
        domains: true,
        weak_until: false,
        max_quant_depth: 3,
        patterns: true,
        long_chains: true,
    };
    pub const EXTENDED_WEAK: FCfg = FCfg {
        wild: true,
        domains: true,
        weak_until: true,
        max_quant_depth: 3,
        patterns: true,
        long_chains: true,
    };
}

pub fn raw_f(depth: u32, size: u32) -> BoxedStrategy<RawF> {
    raw_f_weighted(depth, size, 1)
}

/// `pattern_weight`: weight of the attractor / steady-state pattern production among the leaves
/// (the other leaf weights sum to 15).
pub fn raw_f_weighted(depth: u32, size: u32, pattern_weight: u32) -> BoxedStrategy<RawF> {
    let leaf = prop_oneof![
        4 => any::<u16>().prop_map(RawF::Prop),
        4 => any::<u16>().prop_map(RawF::Var),
        1 => any::<bool>().prop_map(RawF::Const),
        2 => any::<u16>().prop_map(RawF::Wild),
        pattern_weight => (0..8u8, any::<u16>()).prop_map(|(v, s)| RawF::Pattern(v, s)),
        3 => (any::<u16>(), any::<u16>()).prop_map(|(a, b)| RawF::Repeat(a, b)),
    ];
    leaf.prop_recursive(depth, size, 2, |inner| {
        prop_oneof![
            4 => (0..7u8, inner.clone()).prop_map(|(op, a)| RawF::Un(op, Box::new(a))),
            4 => (0..9u8, inner.clone(), inner.clone())
                .prop_map(|(op, a, b)| RawF::Bin(op, Box::new(a), Box::new(b))),
            5 => (0..6u8, any::<u16>(), prop::option::weighted(0.45, any::<u16>()), inner.clone())
                .prop_map(|(op, v, d, a)| RawF::Hyb(op, v, d, Box::new(a))),
            2 => (any::<u8>(), any::<u16>(), any::<u8>(), inner.clone())
                .prop_map(|(ops, d, variant, a)| RawF::Twin(ops, d, variant, Box::new(a))),
            1 => (any::<u8>(), any::<u16>(), inner.clone())
                .prop_map(|(ops, v, a)| RawF::TwinSwap(ops, v, Box::new(a))),
            1 => (any::<u8>(), any::<u8>(), prop::collection::vec(any::<u16>(), 1..6), inner.clone())
                .prop_map(|(len, op, leaves, a)| RawF::Chain(len, op, leaves, Box::new(a))),
            1 => (any::<u8>(), prop::collection::vec((any::<u8>(), prop::option::weighted(0.3, any::<u16>())), 1..6), inner.clone())
                .prop_map(|(count, qs, a)| RawF::Nest(count, qs, Box::new(a))),
            1 => (any::<u8>(), any::<u8>(), prop::collection::vec(any::<u16>(), 1..6), inner)
                .prop_map(|(len, op, leaves, a)| RawF::TwinTail(len, op, leaves, Box::new(a))),
        ]
    })
    .boxed()
}

pub const BINDERS: [&str; 8] = ["x", "y", "z", "xx", "x1", "var0", "xxx", "w"];
pub const LABELS: [&str; 4] = ["d", "e", "p", "A1"];

pub struct FEnv<'a> {
    pub props: &'a [String],
    pub labels: &'a [String],
    pub cfg: FCfg,
    /// names for quantified variables
    pub binders: &'a [&'a str],
}

pub fn resolve_f(raw: &RawF, env: &FEnv) -> F {
    let mut scope = vec![];
    let mut seen = vec![];
    resolve_rec(raw, env, &mut scope, &mut seen)
}

/// Resolve several formulae of one batch; `Repeat` nodes may refer to sub-formulae of earlier ones.
pub fn resolve_batch(raws: &[RawF], env: &FEnv) -> Vec<F> {
    let mut seen = vec![];
    raws.iter()
        .map(|r| resolve_rec(r, env, &mut vec![], &mut seen))
        .collect()
}

/// Resolve with some variables already in scope (for open sub-formulae).
pub fn resolve_f_in_scope(raw: &RawF, env: &FEnv, scope: &mut Vec<String>) -> F {
    let mut seen = vec![];
    resolve_rec(raw, env, scope, &mut seen)
}

/// Re-instantiate `sub` in `scope`: free variables are mapped onto variables in scope, bound
/// variables that would re-quantify a name in scope are renamed.  `None` if it does not fit.
fn instantiate(sub: &F, scope: &[String], shift: usize, max_depth: usize, pool: &[&str]) -> Option<F> {
    let fv: Vec<String> = sub.free_vars().into_iter().collect();
    if !fv.is_empty() && scope.is_empty() {
        return None;
    }
    if scope.len() + sub.quant_depth() > max_depth {
        return None;
    }
    let map: Vec<(String, String)> = fv
        .iter()
        .enumerate()
        .map(|(i, v)| (v.clone(), scope[(i + shift) % scope.len()].clone()))
        .collect();
    fn rec(f: &F, map: &mut Vec<(String, String)>, scope: &mut Vec<String>, pool: &[&str]) -> F {
        let look = |v: &String, map: &Vec<(String, String)>| {
            map.iter()
                .rev()
                .find(|(a, _)| a == v)
                .map(|(_, b)| b.clone())
                .unwrap_or_else(|| v.clone())
        };
        match f {
            F::Const(_) | F::Prop(_) | F::Wild(_) => f.clone(),
            F::Var(v) => F::Var(look(v, map)),
            F::Un(op, a) => F::Un(*op, Box::new(rec(a, map, scope, pool))),
            F::Bin(op, a, b) => F::Bin(*op, Box::new(rec(a, map, scope, pool)), Box::new(rec(b, map, scope, pool))),
            F::Hyb(HybOp::Jump, v, d, a) => {
                F::Hyb(HybOp::Jump, look(v, map), d.clone(), Box::new(rec(a, map, scope, pool)))
            }
            F::Hyb(op, v, d, a) => {
                let name = if scope.contains(v) {
                    fresh_binder(0, scope, pool)
                } else {
                    v.clone()
                };
                map.push((v.clone(), name.clone()));
                scope.push(name.clone());
                let body = rec(a, map, scope, pool);
                scope.pop();
                map.pop();
                F::Hyb(*op, name, d.clone(), Box::new(body))
            }
        }
    }
    let mut map = map;
    let mut scope = scope.to_vec();
    Some(rec(sub, &mut map, &mut scope, pool))
}

fn fresh_binder(sel: u16, scope: &[String], pool: &[&str]) -> String {
    let mut i = idx(sel, pool.len());
    for _ in 0..pool.len() {
        if !scope.iter().any(|s| s == pool[i]) {
            return pool[i].to_string();
        }
        i = (i + 1) % pool.len();
    }
    format!("v{}", scope.len())
}

fn swap_props(f: &F, a: &str, b: &str) -> F {
    match f {
        F::Prop(p) if p == a => F::Prop(b.to_string()),
        F::Prop(p) if p == b => F::Prop(a.to_string()),
        F::Un(op, x) => F::Un(*op, Box::new(swap_props(x, a, b))),
        F::Bin(op, x, y) => F::Bin(*op, Box::new(swap_props(x, a, b)), Box::new(swap_props(y, a, b))),
        F::Hyb(op, v, d, x) => F::Hyb(*op, v.clone(), d.clone(), Box::new(swap_props(x, a, b))),
        other => other.clone(),
    }
}

/// `l1 op (l2 op (... (l_n op inner)))` with 9..32 links (variants: left-nested, mixed operators,
/// unary chain).
fn build_chain(len: u8, op: u8, leaves: &[u16], inner: F, env: &FEnv, scope: &[String]) -> F {
    let n = 9 + (len as usize % 24);
    let leaf = |i: usize| -> F {
        let sel = leaves[i % leaves.len()].wrapping_add((i as u16).wrapping_mul(7919));
        if !scope.is_empty() && sel % 5 == 0 {
            F::Var(scope[idx(sel, scope.len())].clone())
        } else if env.props.is_empty() {
            F::Const(sel % 2 == 0)
        } else {
            F::Prop(env.props[idx(sel, env.props.len())].clone())
        }
    };
    let bins = [BinOp::And, BinOp::Or, BinOp::Xor, BinOp::Imp, BinOp::Iff, BinOp::EU, BinOp::AW];
    let fix = |o: BinOp| {
        if !env.cfg.weak_until && o == BinOp::AW {
            BinOp::AU
        } else {
            o
        }
    };
    let kind = op as usize % 10;
    let mut acc = inner;
    for i in (0..n).rev() {
        acc = match kind {
            0..=6 => F::bin(fix(bins[kind]), leaf(i), acc),
            7 => F::bin(bins[(len as usize) % 5], acc, leaf(i)),
            8 => F::bin(bins[(i + len as usize) % 5], leaf(i), acc),
            _ => F::un([UnOp::Not, UnOp::AG, UnOp::EF, UnOp::AX, UnOp::EX, UnOp::Not][(i + len as usize) % 6], acc),
        };
    }
    acc
}

fn resolve_rec(raw: &RawF, env: &FEnv, scope: &mut Vec<String>, seen: &mut Vec<F>) -> F {
    let out = resolve_node(raw, env, scope, seen);
    if !matches!(out, F::Const(_) | F::Prop(_) | F::Var(_)) && seen.len() < 64 {
        seen.push(out.clone());
    }
    out
}

fn resolve_node(raw: &RawF, env: &FEnv, scope: &mut Vec<String>, seen: &mut Vec<F>) -> F {
    match raw {
        RawF::Repeat(sel, shift) => {
            if seen.is_empty() {
                return resolve_rec(&RawF::Var(*sel), env, scope, seen);
            }
            let start = idx(*sel, seen.len());
            for off in 0..seen.len() {
                let cand = &seen[(start + off) % seen.len()];
                if let Some(f) = instantiate(cand, scope, *shift as usize, env.cfg.max_quant_depth, env.binders) {
                    return f;
                }
            }
            resolve_rec(&RawF::Var(*sel), env, scope, seen)
        }
        RawF::Const(b) => F::Const(*b),
        RawF::Prop(sel) => {
            if env.props.is_empty() {
                F::Const(true)
            } else {
                F::Prop(env.props[idx(*sel, env.props.len())].clone())
            }
        }
        RawF::Var(sel) => {
            if scope.is_empty() {
                resolve_rec(&RawF::Prop(*sel), env, scope, seen)
            } else {
                F::Var(scope[idx(*sel, scope.len())].clone())
            }
        }
        RawF::Wild(sel) => {
            if env.cfg.wild && !env.labels.is_empty() {
                F::Wild(env.labels[idx(*sel, env.labels.len())].clone())
            } else {
                resolve_rec(&RawF::Prop(*sel), env, scope, seen)
            }
        }
        RawF::Un(op, a) => F::Un(UN_OPS[*op as usize % 7], Box::new(resolve_rec(a, env, scope, seen))),
        RawF::Bin(op, a, b) => {
            let mut op = BIN_OPS[*op as usize % 9];
            if !env.cfg.weak_until {
                op = match op {
                    BinOp::EW => BinOp::EU,
                    BinOp::AW => BinOp::AU,
                    o => o,
                };
            }
            F::Bin(
                op,
                Box::new(resolve_rec(a, env, scope, seen)),
                Box::new(resolve_rec(b, env, scope, seen)),
            )
        }
        RawF::Hyb(op, vsel, dsel, a) => {
            let op = [HybOp::Bind, HybOp::Exists, HybOp::Forall, HybOp::Jump, HybOp::Jump, HybOp::Bind][*op as usize % 6];
            if op == HybOp::Jump {
                if scope.is_empty() {
                    return resolve_rec(a, env, scope, seen);
                }
                let v = scope[idx(*vsel, scope.len())].clone();
                return F::Hyb(HybOp::Jump, v, None, Box::new(resolve_rec(a, env, scope, seen)));
            }
            if scope.len() >= env.cfg.max_quant_depth {
                return resolve_rec(a, env, scope, seen);
            }
            let v = fresh_binder(*vsel, scope, env.binders);
            let d = match dsel {
                Some(sel) if env.cfg.domains && !env.labels.is_empty() => {
                    Some(env.labels[idx(*sel, env.labels.len())].clone())
                }
                _ => None,
            };
            scope.push(v.clone());
            let body = resolve_rec(a, env, scope, seen);
            scope.pop();
            F::Hyb(op, v, d, Box::new(body))
        }
        RawF::Twin(ops, dsel, variant, body) => {
            if scope.len() + 2 > env.cfg.max_quant_depth {
                return resolve_rec(body, env, scope, seen);
            }
            let quants = [HybOp::Bind, HybOp::Exists, HybOp::Forall];
            let (q1, q2) = (quants[(*ops % 3) as usize], quants[((*ops / 3) % 3) as usize]);
            let bop = BIN_OPS[((*ops / 9) % 5) as usize];
            let v = fresh_binder(*dsel, scope, env.binders);
            let label = |k: usize| -> Option<String> {
                if env.cfg.domains && !env.labels.is_empty() {
                    Some(env.labels[(idx(*dsel, env.labels.len()) + k) % env.labels.len()].clone())
                } else {
                    None
                }
            };
            let d1 = label(0);
            let d2 = match variant % 4 {
                0 | 1 => label(0),
                2 => label(1),
                _ => None,
            };
            scope.push(v.clone());
            let b = resolve_rec(body, env, scope, seen);
            scope.pop();
            // variant bit 4: the copies are jumps to their own variable (`Q{v} in %d%: @{v}: body`)
            let b = if variant & 16 != 0 { F::Hyb(HybOp::Jump, v.clone(), None, Box::new(b)) } else { b };
            // variant bit 5: a third copy without a domain follows
            let third = if variant & 32 != 0 { Some(F::Hyb(quants[((*ops / 45) % 3) as usize], v.clone(), None, Box::new(b.clone()))) } else { None };
            let first = F::Hyb(q1, v.clone(), d1, Box::new(b.clone()));
            // second copy: same body, optionally wrapped one quantifier deeper
            let second = if variant & 4 != 0 {
                let mut taken = scope.clone();
                taken.push(v.clone());
                b.visit(&mut |g| {
                    if let F::Hyb(_, name, _, _) = g {
                        taken.push(name.clone());
                    }
                });
                let w = fresh_binder(dsel.wrapping_add(20000), &taken, env.binders);
                // the wrapper variable is unused; the copy's own variable keeps its name `v`
                F::Hyb(HybOp::Exists, w, None, Box::new(F::Hyb(q2, v.clone(), d2, Box::new(b))))
            } else {
                F::Hyb(q2, v.clone(), d2, Box::new(b))
            };
            let pair = if variant & 8 != 0 {
                F::Bin(bop, Box::new(second), Box::new(first))
            } else {
                F::Bin(bop, Box::new(first), Box::new(second))
            };
            match third {
                Some(t) => F::Bin(BIN_OPS[((*ops / 9 + 1) % 5) as usize], Box::new(pair), Box::new(t)),
                None => pair,
            }
        }
        RawF::Chain(len, op, leaves, body) => {
            if !env.cfg.long_chains {
                return resolve_rec(body, env, scope, seen);
            }
            let inner = resolve_rec(body, env, scope, seen);
            build_chain(*len, *op, leaves, inner, env, scope)
        }
        RawF::TwinTail(len, op, leaves, body) => {
            if !env.cfg.long_chains {
                return resolve_rec(body, env, scope, seen);
            }
            // two long formulae with the same long prefix whose tails are permutations of each other
            let core = resolve_rec(body, env, scope, seen);
            let props: Vec<String> = core.props().into_iter().collect();
            let core2 = if props.len() >= 2 {
                swap_props(&core, &props[0], &props[1])
            } else if !env.props.is_empty() && env.props.len() >= 2 {
                F::and(core.clone(), F::Prop(env.props[idx(leaves[0], env.props.len())].clone()))
            } else {
                F::not(core.clone())
            };
            let c1 = build_chain(*len, *op, leaves, core, env, scope);
            let c2 = build_chain(*len, *op, leaves, core2, env, scope);
            F::Bin(BIN_OPS[(*len as usize / 3) % 5], Box::new(c1), Box::new(c2))
        }
        RawF::Nest(count, qs, body) => {
            let room = env.cfg.max_quant_depth.saturating_sub(scope.len());
            let n = (4 + (*count as usize % 8)).min(room);
            let quants = [HybOp::Bind, HybOp::Exists, HybOp::Forall];
            let mut names = vec![];
            for i in 0..n {
                let v = fresh_binder((*count as u16).wrapping_mul(31).wrapping_add((i as u16).wrapping_mul(9001)), scope, env.binders);
                scope.push(v.clone());
                names.push(v);
            }
            let mut acc = resolve_rec(body, env, scope, seen);
            for i in (0..n).rev() {
                scope.pop();
                let (q, d) = &qs[i % qs.len()];
                let d = match d {
                    Some(sel) if env.cfg.domains && !env.labels.is_empty() => {
                        Some(env.labels[idx(*sel, env.labels.len())].clone())
                    }
                    _ => None,
                };
                acc = F::Hyb(quants[(*q as usize + i) % 3], names[i].clone(), d, Box::new(acc));
            }
            acc
        }
        RawF::TwinSwap(ops, vsel, body) => {
            if scope.len() + 2 > env.cfg.max_quant_depth {
                return resolve_rec(body, env, scope, seen);
            }
            let quants = [HybOp::Bind, HybOp::Exists, HybOp::Forall];
            let (q1, q2) = (quants[(*ops % 3) as usize], quants[((*ops / 3) % 3) as usize]);
            let bop = BIN_OPS[((*ops / 9) % 9) as usize];
            let bop = if !env.cfg.weak_until {
                match bop {
                    BinOp::EW => BinOp::EU,
                    BinOp::AW => BinOp::AU,
                    o => o,
                }
            } else {
                bop
            };
            let u = fresh_binder(*vsel, scope, env.binders);
            scope.push(u.clone());
            let v = fresh_binder(vsel.wrapping_add(9000), scope, env.binders);
            scope.push(v.clone());
            // make sure both variables occur: jump to one, mention the other
            let inner = resolve_rec(body, env, scope, seen);
            scope.pop();
            scope.pop();
            let b = F::Hyb(
                HybOp::Jump,
                u.clone(),
                None,
                Box::new(F::bin(BinOp::And, inner, F::un(UnOp::EF, F::Var(v.clone())))),
            );
            // the same body with u and v exchanged (bound variables inside are left alone; they
            // cannot be named u or v because both were in scope when the body was resolved)
            fn swap(f: &F, u: &str, v: &str) -> F {
                let sw = |x: &String| {
                    if x == u {
                        v.to_string()
                    } else if x == v {
                        u.to_string()
                    } else {
                        x.clone()
                    }
                };
                match f {
                    F::Var(x) => F::Var(sw(x)),
                    F::Un(op, a) => F::Un(*op, Box::new(swap(a, u, v))),
                    F::Bin(op, a, b) => F::Bin(*op, Box::new(swap(a, u, v)), Box::new(swap(b, u, v))),
                    F::Hyb(HybOp::Jump, x, d, a) => F::Hyb(HybOp::Jump, sw(x), d.clone(), Box::new(swap(a, u, v))),
                    F::Hyb(op, x, d, a) => F::Hyb(*op, x.clone(), d.clone(), Box::new(swap(a, u, v))),
                    other => other.clone(),
                }
            }
            let b2 = swap(&b, &u, &v);
            F::Hyb(
                q1,
                u.clone(),
                None,
                Box::new(F::Hyb(q2, v.clone(), None, Box::new(F::Bin(bop, Box::new(b), Box::new(b2))))),
            )
        }
        RawF::Pattern(variant, sel) => {
            if !env.cfg.patterns || scope.len() >= env.cfg.max_quant_depth {
                return resolve_rec(&RawF::Var(*sel), env, scope, seen);
            }
            let v = fresh_binder(*sel, scope, env.binders);
            let x = || F::var(&v);
            let other = if scope.is_empty() {
                None
            } else {
                Some(scope[idx(*sel, scope.len())].clone())
            };
            let dom = if env.cfg.domains && !env.labels.is_empty() {
                Some(env.labels[idx(*sel, env.labels.len())].clone())
            } else {
                None
            };
            let body = match variant % 8 {
                // the two patterns
                0 | 1 => F::un(UnOp::AG, F::un(UnOp::EF, x())),
                2 | 3 => F::un(UnOp::AX, x()),
                // near misses: swapped operators, other variable, extra operator
                4 => F::un(UnOp::EF, F::un(UnOp::AG, x())),
                5 => match &other {
                    Some(o) => F::un(UnOp::AX, F::var(o)),
                    None => F::un(UnOp::EX, x()),
                },
                6 => match &other {
                    Some(o) => F::un(UnOp::AG, F::un(UnOp::EF, F::var(o))),
                    None => F::un(UnOp::AG, F::un(UnOp::EF, F::not(F::not(x())))),
                },
                _ => F::un(UnOp::AX, F::and(x(), F::Const(true))),
            };
            // near miss: a domain on the binder (odd variants only)
            let d = if variant % 2 == 1 { dom } else { None };
            F::Hyb(HybOp::Bind, v, d, Box::new(body))
        }
    }
}

// ---------------------------------------------------------------------------------------------
// context sets

#[derive(Clone, Debug)]
pub struct RawPiece {
    pub states: u64,
    pub cube: Vec<(u16, bool)>,
}

#[derive(Clone, Debug)]
pub struct RawSet {
    pub pieces: Vec<RawPiece>,
}

pub fn raw_set() -> BoxedStrategy<RawSet> {
    let piece = (
        prop_oneof![
            1 => Just(u64::MAX),
            3 => any::<u64>(),
            1 => any::<u64>().prop_map(|x| x & (x >> 7) & (x >> 13)),
        ],
        prop::collection::vec((any::<u16>(), any::<bool>()), 0..=2),
    )
        .prop_map(|(states, cube)| RawPiece { states, cube });
    prop::collection::vec(piece, 0..=3)
        .prop_map(|pieces| RawSet { pieces })
        .boxed()
}

/// Explicit context set: per colour (all 2^p valuations, invalid ones get the empty set) a state set.
pub fn resolve_set(raw: &RawSet, net: &Net) -> Vec<StateSet> {
    let all = net.all_states();
    (0..net.num_colours() as u64)
        .map(|c| {
            if !net.valid[c as usize] {
                return 0;
            }
            let mut s = 0;
            for piece in &raw.pieces {
                let matches = net.p == 0
                    || piece.cube.iter().all(|(sel, val)| {
                        let j = idx(*sel, net.p);
                        ((c >> j) & 1 == 1) == *val
                    });
                if matches {
                    // fold the 64-bit pattern onto the state space
                    s |= piece.states & all;
                }
            }
            s
        })
        .collect()
}

#[derive(Clone, Debug, PartialEq, Eq)]
pub enum SetClass {
    Empty,
    Full,
    ColourIndependent,
    EmptyForSomeColours,
    ColourDependent,
}

pub fn classify_set(set: &[StateSet], net: &Net) -> SetClass {
    let valid = net.valid_colours();
    let all = net.all_states();
    let vals: Vec<StateSet> = valid.iter().map(|c| set[*c as usize]).collect();
    if vals.iter().all(|s| *s == 0) {
        SetClass::Empty
    } else if vals.iter().all(|s| *s == all) {
        SetClass::Full
    } else if vals.iter().all(|s| *s == vals[0]) {
        SetClass::ColourIndependent
    } else if vals.iter().any(|s| *s == 0) {
        SetClass::EmptyForSomeColours
    } else {
        SetClass::ColourDependent
    }
}

pub type ExplicitContext = BTreeMap<String, Vec<StateSet>>;
