use hctl_verif::engine::{drive, harness_error, install_panic_hook, Tier};
use hctl_verif::props;

fn main() {
    let args: Vec<String> = std::env::args().collect();
    if args.len() < 3 {
        eprintln!("usage: check <ID> <quick|thorough> [--replay FILE]");
        std::process::exit(2);
    }
    let id = args[1].as_str();
    let tier = match args[2].as_str() {
        "quick" => Tier::Quick,
        "thorough" => Tier::Thorough,
        other => harness_error(&format!("unknown tier {other}")),
    };
    let replay = args
        .iter()
        .position(|a| a == "--replay")
        .and_then(|i| args.get(i + 1))
        .map(|s| s.as_str());
    let seed: u64 = std::env::var("VERIF_SEED")
        .ok()
        .and_then(|s| s.trim().parse::<i64>().ok())
        .map(|v| v as u64)
        .unwrap_or(0);
    install_panic_hook();
    let code = match id {
        "C01" => drive(&props::c01::C01, tier, seed, replay),
        "C02" => drive(&props::c02::C02, tier, seed, replay),
        "C03" => drive(&props::c03::C03, tier, seed, replay),
        "C04" => drive(&props::c04::C04, tier, seed, replay),
        "C05" => drive(&props::c05::C05, tier, seed, replay),
        "C06" => drive(&props::c06::C06, tier, seed, replay),
        "C07" => drive(&props::c07::C07, tier, seed, replay),
        "C08" => drive(&props::c08::C08, tier, seed, replay),
        "C10" => drive(&props::c10::C10, tier, seed, replay),
        "C09" => drive(&props::c09::C09, tier, seed, replay),
        "C11" => drive(&props::c11::C11, tier, seed, replay),
        "C12" => drive(&props::c12::C12, tier, seed, replay),
        "C13" => drive(&props::c13::C13, tier, seed, replay),
        "C14" => drive(&props::c14::C14, tier, seed, replay),
        "C15" => drive(&props::c15::C15, tier, seed, replay),
        "C16" => drive(&props::c16::C16, tier, seed, replay),
        "C17" => drive(&props::c17::C17, tier, seed, replay),
        "C18" => drive(&props::c18::C18, tier, seed, replay),
        "C19" => drive(&props::c19::C19, tier, seed, replay),
        "C20" => drive(&props::c20::C20, tier, seed, replay),
        other => harness_error(&format!("unknown property {other}")),
    };
    std::process::exit(code);
}
