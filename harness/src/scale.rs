//! Cases beyond the reach of the explicit-state oracle: generated mid-size networks (7-14 variables,
//! tens of parameter bits) and the bundled benchmark models, decided by the reference symbolic
//! evaluator (`refsym.rs`), plus the calibration of that evaluator against the explicit-state one.

use crate::ast::*;
use crate::bundled::repo_dir;
use crate::engine::*;
use crate::gen::{self, idx, FCfg, FEnv, RawExpr, RawF};
use crate::refparse;
use crate::refsym::{depends_on_extras, RefErr, RefSym};
use biodivine_hctl_model_checker::mc_utils::get_extended_symbolic_graph;
use biodivine_hctl_model_checker::model_checking::*;
use biodivine_hctl_model_checker::preprocessing::parser::parse_and_minimize_hctl_formula;
use biodivine_lib_param_bn::symbolic_async_graph::{GraphColoredVertices, SymbolicAsyncGraph};
use biodivine_lib_param_bn::biodivine_std::traits::Set;
use biodivine_lib_param_bn::BooleanNetwork;
use proptest::prelude::*;
use serde::{Deserialize, Serialize};
use serde_json::{json, Value};
use crate::bundled::BigSet;
use std::collections::{BTreeMap, HashMap};
use std::time::{Duration, Instant};

// ---------------------------------------------------------------------------------------------
// mid-size networks

#[derive(Clone, Debug)]
pub struct RawMidVar {
    pub regs: Vec<(u16, u8, bool)>,
    /// 0-4 implicit function, 5-7 explicit expression, 8-9 one shared uninterpreted symbol applied to
    /// the regulators, 10 frozen (`$v: v`), 11 free input (no regulators, no function)
    pub kind: u8,
    pub expr: RawExpr,
}

#[derive(Clone, Debug)]
pub struct RawMid {
    pub n: u8,
    pub vars: Vec<RawMidVar>,
    /// heavily parametrised: every variable gets an implicit (fully unknown) function of three regulators
    pub heavy: bool,
    /// additional frozen variables (`$zp: zp`): 12-18 variables in total at the BDD cost of 7-10; with
    /// 45 or 52 of them the network has more than 2^53 states (every count held in a float is then
    /// inexact) and the formula gets a single state or its complement as an argument (`with_point`)
    pub pad: u8,
}

pub const MID_MIN: usize = 7;
pub const MID_MAX: usize = 10;

pub fn raw_mid() -> BoxedStrategy<RawMid> {
    let var = (
        prop::collection::vec((any::<u16>(), 0..3u8, any::<bool>()), 1..=3),
        0..12u8,
        gen::raw_expr_strategy(),
    )
        .prop_map(|(regs, kind, expr)| RawMidVar { regs, kind, expr });
    (
        0..8u8,
        prop::collection::vec(var, MID_MAX),
        prop::bool::weighted(0.1),
        prop_oneof![4 => Just(0u8), 1 => Just(3u8), 1 => Just(5u8), 1 => Just(8u8), 1 => Just(45u8), 1 => Just(52u8)],
    )
        .prop_map(|(n, vars, heavy, pad)| RawMid { n, vars, heavy, pad })
        .boxed()
}

pub fn mid_names(n: usize) -> Vec<String> {
    (0..n).map(|i| format!("m{i}")).collect()
}

/// aeon text of a mid-size network: every variable has 1-3 distinct regulators and an implicit
/// (fully unknown), explicit, or shared-symbol update function.  Always satisfiable: constrained
/// regulations are used with implicit functions only.
pub fn resolve_mid(raw: &RawMid) -> String {
    let n = MID_MIN + (raw.n as usize) % (MID_MAX - MID_MIN + 1);
    let names = mid_names(n);
    let mut lines = vec![];
    let mut budget = 48usize;
    let mut used_fns = vec![false; gen::FN_SYMBOLS.len()];
    for i in 0..n {
        let var = &raw.vars[i];
        let mut regs: Vec<(usize, u8, bool)> = vec![];
        for (src, sign, obs) in &var.regs {
            let src = idx(*src, n);
            if !regs.iter().any(|r| r.0 == src) {
                regs.push((src, *sign, *obs));
            }
        }
        let mut kind = var.kind;
        if raw.heavy && n <= 8 {
            kind = 0;
            let mut j = i;
            while regs.len() < 3 {
                j = (j + 1) % n;
                if !regs.iter().any(|r| r.0 == j) {
                    regs.push((j, 0, false));
                }
            }
        }
        match kind {
            0..=4 => {
                for (src, sign, obs) in &regs {
                    lines.push(format!("{} {} {}", names[*src], gen::arrow(*sign, *obs), names[i]));
                }
            }
            5..=7 => {
                let reg_names: Vec<String> = regs.iter().map(|r| names[r.0].clone()).collect();
                let (text, _) = gen::render_function(&var.expr, &reg_names, &mut budget, &mut used_fns);
                for (src, _, _) in &regs {
                    lines.push(format!("{} -?? {}", names[*src], names[i]));
                }
                lines.push(format!("${}: {}", names[i], text));
            }
            8..=9 => {
                let args: Vec<String> = regs.iter().map(|r| names[r.0].clone()).collect();
                for (src, _, _) in &regs {
                    lines.push(format!("{} -?? {}", names[*src], names[i]));
                }
                lines.push(format!("${}: u{}({})", names[i], args.len(), args.join(", ")));
            }
            10 => {
                lines.push(format!("{} -> {}", names[i], names[i]));
                lines.push(format!("${}: {}", names[i], names[i]));
            }
            _ => {
                // an input: a zero-arity parameter of its own
                lines.push(format!("${}: in_{}", names[i], i));
            }
        }
    }
    for i in 0..raw.pad {
        lines.push(format!("zp{i} -> zp{i}"));
        lines.push(format!("$zp{i}: zp{i}"));
    }
    lines.join("\n")
}

// ---------------------------------------------------------------------------------------------
// bundled models on which a dozen quantifier-free formulae take the tool and the reference at most
// a second in total (first group) or up to ~15 s (second group); measured with bin/probe_scale4.
// The other 25 bundled models do not finish `EX p`-like formulae within 100 s.

pub const SCALE_MODELS_QUICK: [&str; 20] = [
    "test/model-010-13var-2in.aeon",
    "test/model-022-17var-5in.aeon",
    "benchmark_models/inference-benchmarks/110_9v/model_concrete.aeon",
    "benchmark_models/inference-benchmarks/110_9v/model_parametrized.aeon",
    "benchmark_models/inference-benchmarks/114_84v/model_concrete.aeon",
    "benchmark_models/inference-benchmarks/115_35v/model_concrete.aeon",
    "benchmark_models/inference-benchmarks/115_35v/model_parametrized.aeon",
    "benchmark_models/inference-benchmarks/123_60v/model_concrete.aeon",
    "benchmark_models/inference-benchmarks/123_60v/model_parametrized.aeon",
    "benchmark_models/inference-benchmarks/CNS_development/model.aeon",
    "benchmark_models/inference-benchmarks/case_study_TLGL/TLGL_reduced_concrete.aeon",
    "benchmark_models/inference-benchmarks/case_study_TLGL/TLGL_reduced_partial_updates.aeon",
    "benchmark_models/large-colored-models/set1-tacas/tacas2.aeon",
    "benchmark_models/large-colored-models/set1-tacas/tacas2_extended.aeon",
    "benchmark_models/large-colored-models/set1-tacas/tacas3.aeon",
    "benchmark_models/large-colored-models/set1-tacas/tacas5.aeon",
    "benchmark_models/pystablemotifs-models/2161_Guard_Cell_Abscisic_Acid_Signaling.aeon",
    "benchmark_models/pystablemotifs-models/2691_T-Cell_Signaling_2006.aeon",
    "benchmark_models/pystablemotifs-models/cell_cycle_2016.aeon",
    "benchmark_models/pystablemotifs-models/myeloid.aeon",
];
pub const SCALE_MODELS_MORE: [&str; 10] = [
    "benchmark_models/pystablemotifs-models/EMT.aeon",
    "benchmark_models/inference-benchmarks/114_84v/model_parametrized.aeon",
    "benchmark_models/inference-benchmarks/118_121v/model_concrete.aeon",
    "benchmark_models/inference-benchmarks/124_252v/model_concrete.aeon",
    "benchmark_models/large-colored-models/set2-cav/all_tested/126_params.aeon",
    "benchmark_models/griffin-models/griffin_model2.aeon",
    "benchmark_models/inference-benchmarks/case_study_arabidopsis/arabidopsis.aeon",
    "benchmark_models/inference-benchmarks/case_study_TLGL/TLGL_reduced_unknown_updates.aeon",
    "benchmark_models/pystablemotifs-models/2176_T-LGL_Survival_Network_2008.aeon",
    "benchmark_models/pystablemotifs-models/2171_T_Cell_Receptor_Signaling.aeon",
];
/// models (of both groups) small enough for one state variable (a spare copy of every network
/// variable); measured: generic one-variable formulae need up to 30 s on the 15- and 18-variable ones
pub const SCALE_HYBRID_OK: [&str; 3] = [
    "benchmark_models/inference-benchmarks/110_9v/model_concrete.aeon",
    "benchmark_models/inference-benchmarks/110_9v/model_parametrized.aeon",
    "benchmark_models/pystablemotifs-models/myeloid.aeon",
];

// ---------------------------------------------------------------------------------------------
// cases

#[derive(Clone, Debug, Serialize, Deserialize)]
pub struct ScaleCase {
    /// marks the case kind in replay files
    pub scale: bool,
    pub aeon: Option<String>,
    /// path of a bundled model, relative to the repository
    pub model: Option<String>,
    pub k: u16,
    pub formula: String,
    /// reference evaluator in `fast` mode (chaotic EF/EU, AG by duality)
    pub fast: bool,
    /// context sets (wild-cards and domains) as unions of sub-spaces x parameter cubes
    #[serde(default)]
    pub context: BTreeMap<String, BigSet>,
}

impl ScaleCase {
    pub fn to_json(&self) -> Value {
        serde_json::to_value(self).unwrap()
    }
    pub fn key(&self) -> u64 {
        hash_of(&(&self.aeon, &self.model, self.k, &self.formula, &self.context))
    }
    pub fn network(&self) -> Result<BooleanNetwork, &'static str> {
        match (&self.aeon, &self.model) {
            (Some(a), _) => BooleanNetwork::try_from(a.as_str()).map_err(|_| "aeon-not-parsed"),
            (None, Some(path)) => BooleanNetwork::try_from_file(format!("{}/{}", repo_dir(), path).as_str())
                .map_err(|_| "bundled-model-not-loadable"),
            _ => Err("unreadable-case"),
        }
    }
}

fn sfail(class: &str, message: String, case: &ScaleCase) -> Failure {
    Failure { class: class.to_string(), message, case: case.to_json() }
}

/// One point of a non-empty difference, written out.
pub fn witness_of(graph: &SymbolicAsyncGraph, got: &GraphColoredVertices, want: &GraphColoredVertices) -> String {
    let ctx = graph.symbolic_context();
    let diff = got.as_bdd().xor(want.as_bdd());
    let Some(w) = diff.sat_witness() else { return "no difference".into() };
    let in_got = got.as_bdd().eval_in(&w);
    let state: Vec<String> = ctx
        .network_variables()
        .map(|v| format!("{}={}", ctx.get_network_variable_name(v), u8::from(w.value(ctx.get_state_variable(v)))))
        .collect();
    let params: String = ctx.parameter_variables().iter().map(|p| if w.value(*p) { '1' } else { '0' }).collect();
    format!(
        "state [{}] parameter bits [{}]: tool says {}, reference says {}",
        state.join(" "),
        params,
        u8::from(in_got),
        u8::from(!in_got)
    )
}

pub struct ScaleOutcome {
    pub nontrivial: bool,
    pub classes: Vec<String>,
}

/// Evaluate through the crate's plain entry points and through the reference symbolic evaluator.
pub fn check_scale(prefix: &str, case: &ScaleCase, ref_budget: Duration) -> Verdict {
    check_scale_with(prefix, case, ref_budget, std::sync::Arc::new(|_, _, _| None))
}

/// A further, property-specific comparison on (graph, formula text, reference result); returns
/// (failure class suffix, message) if it fails.
pub type ExtraCheck = std::sync::Arc<dyn Fn(&SymbolicAsyncGraph, &str, &GraphColoredVertices) -> Option<(String, String)> + Send + Sync>;

/// Tool calls abandoned because they exceeded their time limit (the thread keeps running until the
/// process ends; the case is skipped and counted, never judged).
pub static ABANDONED_TOOL_CALLS: std::sync::atomic::AtomicU64 = std::sync::atomic::AtomicU64::new(0);

/// The reference evaluator runs first, under `ref_budget`; then the crate's entry points run on a
/// helper thread under a limit of max(20 s, 25 x the time the reference needed): the crate's code
/// cannot be interrupted, and a call that blows up must not turn the whole run inconclusive.
pub fn check_scale_with(prefix: &str, case: &ScaleCase, ref_budget: Duration, extra: ExtraCheck) -> Verdict {
    // the whole case (graph construction, reference evaluator - whose budget is only tested between
    // BDD operations -, tool calls) under one limit that stays below the engine's per-case watchdog
    let total = if ref_budget < Duration::from_secs(4) {
        (ref_budget * 30).clamp(Duration::from_secs(15), Duration::from_secs(100))
    } else {
        (ref_budget * 20).min(Duration::from_secs(600))
    };
    let (p, c) = (prefix.to_string(), case.clone());
    match with_time_limit(total, move || check_scale_inner(&p, &c, ref_budget, extra)) {
        Some(v) => v,
        None => Verdict::Discard("scale-case-exceeded-its-time-limit"),
    }
}

fn check_scale_inner(prefix: &str, case: &ScaleCase, ref_budget: Duration, extra: ExtraCheck) -> Verdict {
    let bn = match case.network() {
        Ok(b) => b,
        Err(r) => return Verdict::Discard(r),
    };
    let f = match refparse::parse(&case.formula, true) {
        Ok(f) => f,
        Err(_) => return Verdict::Discard("unreadable-case"),
    };
    if !f.is_closed() {
        return Verdict::Discard("outside-domain");
    }
    let graph = match guard(|| get_extended_symbolic_graph(&bn, case.k)) {
        Ok(Ok(g)) => g,
        Ok(Err(_)) => return Verdict::Discard("constraints-unsatisfiable"),
        Err(p) => return Verdict::Fail(sfail(&format!("{prefix}:panic:graph"), format!("get_extended_symbolic_graph panicked: {p}"), case)),
    };
    if graph.unit_colors().is_empty() {
        return Verdict::Discard("constraints-unsatisfiable");
    }
    let labels: HashMap<String, GraphColoredVertices> = case
        .context
        .iter()
        .map(|(l, set)| (l.clone(), crate::bundled::build_big_set(&graph, set)))
        .collect();
    let (wild, dom) = f.labels();
    if wild.iter().chain(dom.iter()).any(|l| !labels.contains_key(l)) {
        return Verdict::Discard("unreadable-case");
    }
    let t_reference = Instant::now();
    let reference = {
        let r = RefSym::new(&bn, &graph, &labels, case.fast, Some(Instant::now() + ref_budget));
        // pre-flight: the tool computes the steady states at the start of every call and cannot be
        // interrupted; networks on which that alone is expensive are skipped (and counted)
        if r.sinks_within(ref_budget / 8).is_none() {
            return Verdict::Discard("steady-states-too-expensive");
        }
        match r.eval_closed(&f) {
            Ok(s) => s,
            Err(RefErr::Budget) => return Verdict::Discard("reference-budget"),
            Err(RefErr::Unsupported(m)) => harness_error(&format!("reference symbolic evaluator: {m} on {}", case.formula)),
        }
    };
    if depends_on_extras(graph.symbolic_context(), &reference) {
        harness_error(&format!("reference symbolic evaluator: result of closed formula {} depends on spare variables", case.formula));
    }
    let limit = Duration::from_secs(20).max(t_reference.elapsed() * 25).min(Duration::from_secs(600)).max(ref_budget);
    let (tx, rx) = std::sync::mpsc::channel();
    let owned = (prefix.to_string(), case.clone(), bn, graph, labels, reference, f);
    let spawned = std::thread::Builder::new().name("tool-call".into()).stack_size(64 << 20).spawn(move || {
        let (prefix, case, bn, graph, labels, reference, f) = owned;
        let v = tool_part(&prefix, &case, &bn, &graph, &labels, &reference, &f, extra);
        let _ = tx.send(v);
    });
    if spawned.is_err() {
        harness_error("cannot spawn the helper thread for the tool calls");
    }
    match rx.recv_timeout(limit) {
        Ok(v) => v,
        Err(std::sync::mpsc::RecvTimeoutError::Timeout) => {
            ABANDONED_TOOL_CALLS.fetch_add(1, std::sync::atomic::Ordering::SeqCst);
            Verdict::Discard("tool-call-exceeded-its-time-limit")
        }
        Err(std::sync::mpsc::RecvTimeoutError::Disconnected) => harness_error("the helper thread for the tool calls died without a verdict"),
    }
}

#[allow(clippy::too_many_arguments)]
fn tool_part(
    prefix: &str,
    case: &ScaleCase,
    bn: &BooleanNetwork,
    graph: &SymbolicAsyncGraph,
    labels: &HashMap<String, GraphColoredVertices>,
    reference: &GraphColoredVertices,
    f: &F,
    extra: ExtraCheck,
) -> Verdict {
    let extended = f.has_wild_or_domain();
    let text = case.formula.as_str();
    macro_rules! entry {
        ($name:expr, $e:expr) => {
            match guard(|| $e) {
                Err(p) => return Verdict::Fail(sfail(&format!("{prefix}:panic:{}", panic_site(&p)), format!("{} panicked: {p}", $name), case)),
                Ok(Err(e)) => {
                    return Verdict::Fail(sfail(
                        &format!("{prefix}:unexpected-error:{}", $name),
                        format!("{} returned Err({e}) on a valid closed formula", $name),
                        case,
                    ))
                }
                Ok(Ok(v)) => v,
            }
        };
    }
    let clean = if extended {
        let dirty = entry!("model_check_extended_formula_dirty", model_check_extended_formula_dirty(text, &graph, &labels));
        if &dirty != reference {
            return Verdict::Fail(sfail(
                &format!("{prefix}:scale-mismatch:model_check_extended_formula_dirty"),
                format!("model_check_extended_formula_dirty: {}", witness_of(graph, &dirty, reference)),
                case,
            ));
        }
        let batch = entry!(
            "model_check_multiple_extended_formulae_dirty",
            model_check_multiple_extended_formulae_dirty(vec![text], &graph, &labels)
        );
        if batch.len() != 1 || &batch[0] != reference {
            return Verdict::Fail(sfail(
                &format!("{prefix}:scale-mismatch:model_check_multiple_extended_formulae_dirty"),
                format!(
                    "model_check_multiple_extended_formulae_dirty: {}",
                    batch.first().map(|b| witness_of(graph, b, reference)).unwrap_or_else(|| "no result".into())
                ),
                case,
            ));
        }
        entry!("model_check_extended_formula", model_check_extended_formula(text, &graph, &labels))
    } else {
        let dirty = entry!("model_check_formula_dirty", model_check_formula_dirty(text, &graph));
        if &dirty != reference {
            return Verdict::Fail(sfail(
                &format!("{prefix}:scale-mismatch:model_check_formula_dirty"),
                format!("model_check_formula_dirty: {}", witness_of(graph, &dirty, reference)),
                case,
            ));
        }
        let tree = entry!("parse_and_minimize_hctl_formula", parse_and_minimize_hctl_formula(graph.symbolic_context(), text));
        let by_tree = entry!("model_check_tree_dirty", model_check_tree_dirty(tree, &graph));
        if &by_tree != reference {
            return Verdict::Fail(sfail(
                &format!("{prefix}:scale-mismatch:model_check_tree_dirty"),
                format!("model_check_tree_dirty: {}", witness_of(graph, &by_tree, reference)),
                case,
            ));
        }
        entry!("model_check_formula", model_check_formula(text, &graph))
    };
    let canonical = graph.symbolic_context().as_canonical_context();
    let moved = canonical
        .transfer_from(reference.as_bdd(), graph.symbolic_context())
        .unwrap_or_else(|| harness_error("reference result not transferable to the canonical context"));
    if clean.as_bdd() != &moved {
        return Verdict::Fail(sfail(
            &format!("{prefix}:scale-mismatch:sanitised"),
            "model_check_(extended_)formula: sanitised result differs from the reference result".to_string(),
            case,
        ));
    }
    match guard(|| extra(graph, text, reference)) {
        Ok(None) => {}
        Ok(Some((class, message))) => return Verdict::Fail(sfail(&format!("{prefix}:{class}"), message, case)),
        Err(p) => return Verdict::Fail(sfail(&format!("{prefix}:panic:{}", panic_site(&p)), format!("panic: {p}"), case)),
    }
    let unit = graph.mk_unit_colored_vertices();
    let nontrivial = (f.has_temporal() || f.has_hybrid()) && !reference.is_empty() && *reference != unit;
    let mut classes = vec![
        format!("scale:vars={}", bn.num_vars()),
        format!(
            "scale:param-bits={}",
            match graph.symbolic_context().num_parameter_variables() {
                0 => "0",
                1..=12 => "1-12",
                13..=32 => "13-32",
                33..=64 => "33-64",
                _ => ">64",
            }
        ),
        (if case.model.is_some() { "scale:bundled" } else { "scale:generated" }).to_string(),
    ];
    classes.extend(f.operator_labels().into_iter().map(|o| format!("op:{o}")));
    classes.push(format!("qdepth={}", f.quant_depth()));
    Verdict::Pass(CaseReport {
        nontrivial,
        key: case.key(),
        classes,
        sample: json!({"network": case.aeon.clone().or_else(|| case.model.clone()), "k": case.k, "formula": case.formula, "context_labels": case.context.keys().collect::<Vec<_>>(), "decided_by": "reference symbolic evaluator"}),
    })
}

/// A closed plain formula for a mid-size network (quantifier nesting by size).
/// A closed formula over the network's variables in the operator set of `cfg` (its quantifier depth
/// is overridden by `depth`); `cheap`: the operators evaluated by classical iteration (EG, AF, AU,
/// EW) are mapped to saturation-friendly ones.
pub fn scale_formula(raw: &RawF, bn: &BooleanNetwork, cfg: FCfg, depth: usize, cheap: bool) -> F {
    let props: Vec<String> = bn.variables().map(|v| bn.get_variable_name(v).clone()).collect();
    let labels: Vec<String> = if cfg.wild || cfg.domains { gen::LABELS.iter().map(|s| s.to_string()).collect() } else { vec![] };
    let env = FEnv {
        props: &props,
        labels: &labels,
        cfg: FCfg { max_quant_depth: depth, patterns: cfg.patterns && depth > 0, long_chains: false, domains: cfg.domains && depth > 0, ..cfg },
        binders: &gen::BINDERS,
    };
    let f = gen::resolve_f(raw, &env);
    if cheap {
        crate::bundled::cheap_operators(&f)
    } else {
        f
    }
}

pub fn mid_formula(raw: &RawF, bn: &BooleanNetwork, heavy: bool, cfg: FCfg) -> F {
    if heavy {
        // ~60 parameter bits: quantifier-free, saturation-friendly operators only
        return scale_formula(raw, bn, cfg, 0, true);
    }
    let depth = if bn.num_vars() <= 8 { 2 } else { 1 };
    scale_formula(raw, bn, cfg, depth, false)
}

/// `f` combined with a single state (the conjunction of one literal per network variable) or its
/// complement under an operator evaluated by fixed-point iteration: the iterations then move by a
/// few states out of more than 2^53.
pub fn with_point(f: &F, bn: &BooleanNetwork, sel: u8, weak: bool) -> F {
    let mut point: Option<F> = None;
    for (i, v) in bn.variables().enumerate() {
        let p = F::Prop(bn.get_variable_name(v).clone());
        let lit = if mix(sel as u64, i as u64) % 3 == 0 { F::Un(UnOp::Not, Box::new(p)) } else { p };
        point = Some(match point {
            None => lit,
            Some(acc) => F::Bin(BinOp::And, Box::new(acc), Box::new(lit)),
        });
    }
    let point = point.unwrap_or(F::Const(true));
    let not_point = F::Un(UnOp::Not, Box::new(point.clone()));
    let un = |op, a: F| F::Un(op, Box::new(a));
    let bin = |op, a: F, b: F| F::Bin(op, Box::new(a), Box::new(b));
    let f = f.clone();
    match (sel / 2) % if weak { 8 } else { 5 } {
        0 => bin(BinOp::And, un(UnOp::EG, not_point), f),
        1 => bin(BinOp::AU, f, point),
        2 => bin(BinOp::Or, un(UnOp::AF, point), f),
        3 => bin(BinOp::EU, not_point, bin(BinOp::And, f, un(UnOp::EX, point))),
        4 => un(UnOp::AG, bin(BinOp::Or, not_point, f)),
        5 => bin(BinOp::EW, not_point, f),
        6 => bin(BinOp::AW, not_point, f),
        _ => bin(BinOp::EW, not_point, un(UnOp::Not, un(UnOp::EF, point))),
    }
}

/// The context sets a formula refers to, taken from `sets` by label position.
pub fn context_for(f: &F, sets: &[BigSet]) -> BTreeMap<String, BigSet> {
    let (w, d) = f.labels();
    w.into_iter()
        .chain(d)
        .map(|l| {
            let i = gen::LABELS.iter().position(|x| *x == l).unwrap_or(0);
            (l, sets.get(i).cloned().unwrap_or(BigSet { pieces: vec![], mode: 0 }))
        })
        .collect()
}

pub fn mid_case(net: &RawMid, raw_f: &RawF, extra_k: u8) -> Result<ScaleCase, &'static str> {
    mid_case_with(net, raw_f, extra_k, FCfg::PLAIN, &[])
}

pub fn mid_case_with(net: &RawMid, raw_f: &RawF, extra_k: u8, cfg: FCfg, sets: &[BigSet]) -> Result<ScaleCase, &'static str> {
    let aeon = resolve_mid(net);
    let bn = BooleanNetwork::try_from(aeon.as_str()).map_err(|_| "aeon-not-parsed")?;
    let mut f = mid_formula(raw_f, &bn, net.heavy, cfg);
    if net.pad >= 40 {
        f = with_point(&f, &bn, extra_k, cfg.weak_until);
    }
    Ok(ScaleCase {
        scale: true,
        aeon: Some(aeon),
        model: None,
        k: f.quant_depth() as u16 + u16::from(extra_k % 2),
        formula: f.canon(),
        fast: false,
        context: context_for(&f, sets),
    })
}

/// Strategy of the raw ingredients of a mid-size case (network, formula, spare sets, context sets).
pub type RawMidCase = (RawMid, RawF, u8, Vec<BigSet>);
pub fn raw_mid_case(pattern_weight: u32) -> BoxedStrategy<RawMidCase> {
    (
        raw_mid(),
        gen::raw_f_weighted(4, 12, pattern_weight),
        any::<u8>(),
        prop::collection::vec(crate::bundled::big_set(), gen::LABELS.len()),
    )
        .boxed()
}

/// A property's own small case or a mid-size one (network, formula, spare sets, context sets) with
/// the milliseconds granted to the reference evaluator.
#[derive(Clone, Debug)]
pub enum WithMid<R> {
    Small(R),
    Mid(RawMidCase, u64),
}

/// `small_weight` : 1 mixture of a property's own strategy and mid-size cases.
pub fn with_mid<R: std::fmt::Debug + Clone + 'static>(
    small: BoxedStrategy<R>,
    small_weight: u32,
    pattern_weight: u32,
    ms: u64,
) -> BoxedStrategy<WithMid<R>> {
    prop_oneof![
        small_weight => small.prop_map(WithMid::Small),
        1 => (raw_mid_case(pattern_weight), Just(ms)).prop_map(|(c, ms)| WithMid::Mid(c, ms)),
    ]
    .boxed()
}

pub static MID_NANOS: std::sync::atomic::AtomicU64 = std::sync::atomic::AtomicU64::new(0);

pub fn check_mid(prefix: &str, raw: &RawMidCase, ms: u64, cfg: FCfg) -> Verdict {
    let t_all = Instant::now();
    let v = check_mid_inner(prefix, raw, ms, cfg);
    MID_NANOS.fetch_add(t_all.elapsed().as_nanos() as u64, std::sync::atomic::Ordering::Relaxed);
    v
}

fn check_mid_inner(prefix: &str, raw: &RawMidCase, ms: u64, cfg: FCfg) -> Verdict {
    // the heavily parametrised variant (tool calls of 5-10 s) is left to the thorough tier
    let mut net = raw.0.clone();
    net.heavy = net.heavy && ms >= 1000;
    match mid_case_with(&net, &raw.1, raw.2, cfg, &raw.3) {
        Err(r) => Verdict::Discard(r),
        Ok(case) => {
            let t = Instant::now();
            let mut v = check_scale(prefix, &case, Duration::from_millis(ms));
            if std::env::var("VERIF_TRACE_SLOW").is_ok() && t.elapsed().as_secs_f64() > 1.5 {
                eprintln!("slow mid case {:.1}s {} :: {} :: {}", t.elapsed().as_secs_f64(), matches!(v, Verdict::Pass(_)), case.formula, case.aeon.clone().unwrap_or_default().replace('\n', " ; "));
            }
            if let Verdict::Pass(rep) = &mut v {
                let s = t.elapsed().as_secs_f64();
                rep.classes.push(format!("scale:seconds{}", if s < 0.1 { "<0.1" } else if s < 1.0 { "<1" } else if s < 3.0 { "<3" } else if s < 10.0 { "<10" } else { ">=10" }));
            }
            v
        }
    }
}

/// Replay of a saved scale case (None: the file holds another kind of case).
pub fn replay_scale(prefix: &str, case: &Value) -> Option<Verdict> {
    case.get("scale")?;
    Some(match serde_json::from_value::<ScaleCase>(case.clone()) {
        Ok(c) => check_scale(prefix, &c, Duration::from_secs(600)),
        Err(_) => Verdict::Discard("unreadable-case"),
    })
}

// ---------------------------------------------------------------------------------------------
// greedy formula shrinking for the deterministic stages (no proptest value tree there)

fn shrink_candidates(f: &F) -> Vec<F> {
    let mut out = vec![];
    match f {
        F::Un(op, a) => {
            out.push((**a).clone());
            for c in shrink_candidates(a) {
                out.push(F::Un(*op, Box::new(c)));
            }
        }
        F::Bin(op, a, b) => {
            out.push((**a).clone());
            out.push((**b).clone());
            for c in shrink_candidates(a) {
                out.push(F::Bin(*op, Box::new(c), b.clone()));
            }
            for c in shrink_candidates(b) {
                out.push(F::Bin(*op, a.clone(), Box::new(c)));
            }
        }
        F::Hyb(op, v, d, a) => {
            out.push((**a).clone());
            for c in shrink_candidates(a) {
                out.push(F::Hyb(*op, v.clone(), d.clone(), Box::new(c)));
            }
        }
        F::Const(true) => {}
        _ => out.push(F::Const(true)),
    }
    out
}

/// Smallest formula (greedy, closed candidates only) for which `still_fails` holds.
pub fn shrink_formula(f: &F, still_fails: &dyn Fn(&F) -> bool) -> F {
    let mut cur = f.clone();
    let mut rounds = 0;
    'outer: loop {
        rounds += 1;
        if rounds > 200 {
            return cur;
        }
        for c in shrink_candidates(&cur) {
            if c.is_closed() && c.size() < cur.size() && still_fails(&c) {
                cur = c;
                continue 'outer;
            }
        }
        return cur;
    }
}

/// Shrink the formula of a failing scale case, keeping the failure class.
pub fn shrink_scale(prefix: &str, failure: Failure, budget: Duration) -> Failure {
    shrink_scale_with(failure, &|c| check_scale(prefix, c, budget))
}

pub fn shrink_scale_with(failure: Failure, check: &(dyn Fn(&ScaleCase) -> Verdict + Sync)) -> Failure {
    let Ok(case) = serde_json::from_value::<ScaleCase>(failure.case.clone()) else { return failure };
    let Ok(f) = refparse::parse(&case.formula, false) else { return failure };
    let class = failure.class.clone();
    let best = std::cell::RefCell::new(failure);
    let small = shrink_formula(&f, &|c| {
        let mut cand = case.clone();
        cand.formula = c.canon();
        cand.k = (c.quant_depth() as u16).max(cand.k.min(c.quant_depth() as u16));
        match guard(|| check(&cand)) {
            Ok(Verdict::Fail(fl)) if fl.class == class => {
                *best.borrow_mut() = fl;
                true
            }
            _ => false,
        }
    });
    let _ = small;
    best.into_inner()
}

// ---------------------------------------------------------------------------------------------
// deterministic stage over the bundled models

/// `per_model` formulae (derived from the seed) on each listed model, all cases on 16 workers; the
/// first failure is shrunk (formula only) and returned.
#[allow(clippy::too_many_arguments)]
pub fn bundled_scale_stage(
    prefix: &str,
    models: &[&str],
    per_model: usize,
    seed: u64,
    ref_budget: Duration,
    cfg: FCfg,
    pattern_weight: u32,
    stats: &mut Stats,
) -> Option<Failure> {
    bundled_scale_stage_with(prefix, models, per_model, seed, ref_budget, cfg, pattern_weight, false, stats)
}

/// `force_weak`: every generated formula becomes the left argument of a weak until (C13).
#[allow(clippy::too_many_arguments)]
pub fn bundled_scale_stage_with(
    prefix: &str,
    models: &[&str],
    per_model: usize,
    seed: u64,
    ref_budget: Duration,
    cfg: FCfg,
    pattern_weight: u32,
    force_weak: bool,
    stats: &mut Stats,
) -> Option<Failure> {
    bundled_stage_general(prefix, models, per_model, seed, cfg, pattern_weight, force_weak, &|f| f.clone(), &|case| check_scale(prefix, case, ref_budget), stats)
}

/// The stage with a formula transformation and a property-specific check of each case.
#[allow(clippy::too_many_arguments)]
pub fn bundled_stage_custom(
    prefix: &str,
    models: &[&str],
    per_model: usize,
    seed: u64,
    cfg: FCfg,
    map: &(dyn Fn(&F) -> F + Sync),
    check: &(dyn Fn(&ScaleCase) -> Verdict + Sync),
    stats: &mut Stats,
) -> Option<Failure> {
    bundled_stage_general(prefix, models, per_model, seed, cfg, 1, false, map, check, stats)
}

#[allow(clippy::too_many_arguments)]
fn bundled_stage_general(
    _prefix: &str,
    models: &[&str],
    per_model: usize,
    seed: u64,
    cfg: FCfg,
    pattern_weight: u32,
    force_weak: bool,
    map: &(dyn Fn(&F) -> F + Sync),
    check: &(dyn Fn(&ScaleCase) -> Verdict + Sync),
    stats: &mut Stats,
) -> Option<Failure> {
    let started = Instant::now();
    let failure: std::sync::Mutex<Option<Failure>> = std::sync::Mutex::new(None);
    let collected: std::sync::Mutex<Vec<CaseReport>> = std::sync::Mutex::new(vec![]);
    let discards: std::sync::Mutex<std::collections::BTreeMap<String, u64>> = Default::default();
    let per_model_s: std::sync::Mutex<std::collections::BTreeMap<String, f64>> = Default::default();
    // phase 1: the cases of every model (cheap); phase 2: all cases, interleaved, on 16 workers
    let mut per_model_cases: Vec<Vec<ScaleCase>> = vec![];
    for (m, path) in models.iter().enumerate() {
        let Ok(bn) = BooleanNetwork::try_from_file(format!("{}/{}", repo_dir(), path).as_str()) else {
            harness_error(&format!("bundled model {path} not loadable"));
        };
        let hybrid = SCALE_HYBRID_OK.contains(path);
        let ew_ok = bn.num_vars() <= 15
            && biodivine_lib_param_bn::symbolic_async_graph::SymbolicContext::new(&bn).map(|c| c.num_parameter_variables() <= 30).unwrap_or(false);
        let raws = crate::bundled::sample_stream(
            &(gen::raw_f_weighted(4, 10, pattern_weight), prop::collection::vec(crate::bundled::big_set(), gen::LABELS.len())),
            mix(seed, 7000 + m as u64),
            per_model,
        );
        // one-step formulae first (the self-loops on steady states show there), then the stream
        let names: Vec<String> = bn.variables().map(|v| bn.get_variable_name(v).clone()).collect();
        let pick = |i: u64| F::Prop(names[(mix(seed, 7100 + m as u64 + i) % names.len() as u64) as usize].clone());
        let un = |op, a: F| F::Un(op, Box::new(a));
        let bin = |op, a: F, b: F| F::Bin(op, Box::new(a), Box::new(b));
        let formulae = vec![
            un(UnOp::EX, F::Const(true)),
            un(UnOp::AX, F::Const(false)),
            un(UnOp::EX, pick(0)),
            un(UnOp::AX, pick(1)),
            un(UnOp::AX, bin(BinOp::Or, pick(2), un(UnOp::Not, pick(3)))),
            un(UnOp::EX, un(UnOp::AX, pick(4))),
        ];
        let no_sets: Vec<BigSet> = vec![];
        let mut formulae: Vec<(F, &Vec<BigSet>)> = formulae.into_iter().map(|f| (f, &no_sets)).collect();
        formulae.extend(raws.iter().enumerate().map(|(i, (raw, sets))| {
            let f = scale_formula(raw, &bn, cfg, usize::from(hybrid), true);
            let f = if force_weak {
                // (EW is evaluated by a classical iteration: only on the models of up to 15 variables and 30 parameter bits, with a proposition on the left)
                if i % 4 == 0 && ew_ok { bin(BinOp::EW, pick(10 + i as u64), f) } else { bin(BinOp::AW, f, pick(10 + i as u64)) }
            } else {
                f
            };
            (f, sets)
        }));
        per_model_cases.push(
            formulae
                .into_iter()
                .map(|(f, sets)| {
                    let f = map(&f);
                    ScaleCase {
                        scale: true,
                        aeon: None,
                        model: Some(path.to_string()),
                        k: f.quant_depth() as u16,
                        formula: f.canon(),
                        fast: true,
                        context: context_for(&f, sets),
                    }
                })
                .collect(),
        );
    }
    let longest = per_model_cases.iter().map(|c| c.len()).max().unwrap_or(0);
    let mut cases: Vec<&ScaleCase> = vec![];
    for i in 0..longest {
        for list in &per_model_cases {
            if let Some(c) = list.get(i) {
                cases.push(c);
            }
        }
    }
    let next = std::sync::atomic::AtomicUsize::new(0);
    std::thread::scope(|scope| {
        for _ in 0..16 {
            scope.spawn(|| loop {
                let i = next.fetch_add(1, std::sync::atomic::Ordering::SeqCst);
                if i >= cases.len() || failure.lock().unwrap().is_some() {
                    return;
                }
                let case = cases[i];
                let path = case.model.as_deref().unwrap_or("");
                let t_case = Instant::now();
                match guard(|| check(case)) {
                    Ok(Verdict::Fail(fl)) => {
                        let fl = shrink_scale_with(fl, check);
                        let mut slot = failure.lock().unwrap();
                        if slot.is_none() {
                            *slot = Some(fl);
                        }
                        return;
                    }
                    Ok(Verdict::Pass(rep)) => collected.lock().unwrap().push(rep),
                    Ok(Verdict::Discard(r)) => *discards.lock().unwrap().entry(r.to_string()).or_insert(0) += 1,
                    Err(p) => harness_error(&format!("panic in the harness on bundled model {path}: {p}")),
                }
                let short = path.rsplit('/').take(2).collect::<Vec<_>>().into_iter().rev().collect::<Vec<_>>().join("/");
                *per_model_s.lock().unwrap().entry(short).or_insert(0.0) += t_case.elapsed().as_secs_f64();
            });
        }
    });
    let reports = collected.into_inner().unwrap();
    let n = reports.len();
    let nontrivial = reports.iter().filter(|r| r.nontrivial).count();
    for r in reports {
        stats.add(r);
    }
    stats.stages.insert(
        "bundled-models-vs-reference-symbolic-evaluator".into(),
        json!({"models": models.len(), "formulae_per_model": per_model + 6, "cases": n, "nontrivial": nontrivial, "skipped": discards.into_inner().unwrap(), "cpu_seconds_per_model": per_model_s.into_inner().unwrap().into_iter().map(|(k, v)| (k, (v * 10.0).round() / 10.0)).collect::<std::collections::BTreeMap<_, _>>(), "wall_s": (started.elapsed().as_secs_f64() * 10.0).round() / 10.0}),
    );
    failure.into_inner().unwrap()
}

// ---------------------------------------------------------------------------------------------
// calibration of the reference symbolic evaluator against the explicit-state one

/// `count` small random cases (the generator of the semantic properties): the reference symbolic
/// evaluator, in both modes, must agree with the explicit-state evaluator on every state x sampled
/// colour.  A disagreement is an error of the harness (exit 2), never a violation.
pub fn calibrate(seed: u64, count: usize, cfg: FCfg, stats: &mut Stats) {
    use crate::sem::*;
    let started = Instant::now();
    let raws = crate::bundled::sample_stream(&raw_sem(4, 1..=1, 5, 16), mix(seed, 0xca11b), count);
    let checked = std::sync::atomic::AtomicUsize::new(0);
    let nontrivial = std::sync::atomic::AtomicUsize::new(0);
    let next = std::sync::atomic::AtomicUsize::new(0);
    std::thread::scope(|scope| {
        for _ in 0..16 {
            scope.spawn(|| loop {
                let i = next.fetch_add(1, std::sync::atomic::Ordering::SeqCst);
                if i >= raws.len() {
                    return;
                }
                let Ok((case, fs, net)) = resolve_sem(&raws[i], cfg) else { continue };
                let f = &fs[0];
                if !f.is_closed() {
                    continue;
                }
                let colours = sample_colours(&net, 32);
                let want = &expected_many(&net, std::slice::from_ref(f), &case.context, &colours)[0];
                let labels = symbolic_context(&net, &case.context);
                for fast in [false, true] {
                    let r = RefSym::new(&net.bn, &net.graph, &labels, fast, None);
                    let got = match r.eval_closed(f) {
                        Ok(g) => g,
                        Err(e) => harness_error(&format!("calibration: reference symbolic evaluator failed ({e:?}) on {}", case.formulas[0])),
                    };
                    if let Err(m) = compare_raw(&net, &got, &colours, want) {
                        harness_error(&format!(
                            "calibration: reference symbolic evaluator (fast={fast}) disagrees with the explicit-state evaluator on `{}` over\n{}\n{m}",
                            case.formulas[0], case.aeon
                        ));
                    }
                }
                checked.fetch_add(1, std::sync::atomic::Ordering::SeqCst);
                if (f.has_temporal() || f.has_hybrid()) && crate::props::common::nontrivial_result(&net, want) {
                    nontrivial.fetch_add(1, std::sync::atomic::Ordering::SeqCst);
                }
            });
        }
    });
    stats.stages.insert(
        "calibration-of-reference-symbolic-evaluator".into(),
        json!({
            "cases": checked.into_inner(),
            "nontrivial": nontrivial.into_inner(),
            "oracle": "explicit-state evaluator, every state x <= 32 colours, both modes of the reference",
            "on_disagreement": "HARNESS-ERROR, exit 2",
            "wall_s": (started.elapsed().as_secs_f64() * 10.0).round() / 10.0,
        }),
    );
}
