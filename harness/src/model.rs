//! A network under test (`Net`): the parsed `BooleanNetwork`, the extended symbolic graph, and an
//! *explicit* view of it — for every parameter valuation ("colour") the asynchronous transition
//! system as plain successor lists, computed by an own interpreter of `FnUpdate`.  No BDD operation
//! takes part in computing successors; BDDs are only *read* point-wise (`eval_in`).

use biodivine_hctl_model_checker::mc_utils::get_extended_symbolic_graph;
use biodivine_lib_bdd::{Bdd, BddValuation, BddVariable};
use biodivine_lib_param_bn::symbolic_async_graph::{
    FunctionTable, GraphColoredVertices, SymbolicAsyncGraph, SymbolicContext,
};
use biodivine_lib_param_bn::{BinaryOp, BooleanNetwork, FnUpdate};
use std::collections::HashMap;

/// Sets of states are bit masks: bit `s` = state number `s`; bit `i` of a state number = value of
/// the network variable with index `i`.
pub type StateSet = u64;

#[derive(Debug, Clone)]
enum Fe {
    Const(bool),
    Var(usize),
    Not(Box<Fe>),
    Bin(BinaryOp, Box<Fe>, Box<Fe>),
    /// rows[packed argument bits] = index of the parameter bit holding the function value
    Table(Vec<usize>, Vec<Fe>),
}

impl Fe {
    fn eval(&self, state: usize, colour: u64) -> bool {
        match self {
            Fe::Const(b) => *b,
            Fe::Var(i) => (state >> i) & 1 == 1,
            Fe::Not(a) => !a.eval(state, colour),
            Fe::Bin(op, a, b) => {
                let (x, y) = (a.eval(state, colour), b.eval(state, colour));
                match op {
                    BinaryOp::And => x && y,
                    BinaryOp::Or => x || y,
                    BinaryOp::Xor => x != y,
                    BinaryOp::Iff => x == y,
                    BinaryOp::Imp => !x || y,
                }
            }
            Fe::Table(rows, args) => {
                let mut key = 0usize;
                for (i, a) in args.iter().enumerate() {
                    if a.eval(state, colour) {
                        key |= 1 << i;
                    }
                }
                (colour >> rows[key]) & 1 == 1
            }
        }
    }
}

#[derive(Debug)]
pub enum BuildErr {
    /// aeon text not accepted by lib-param-bn (a generator bug, counted separately)
    Parse(String),
    /// regulation constraints unsatisfiable: no valid colour, the graph cannot be built
    Unsat(String),
    /// too many parameter bits for explicit enumeration
    TooLarge(usize),
}

/// Explicit transition system of one colour.
#[derive(Debug, Clone)]
pub struct Ts {
    pub n: usize,
    pub succ: Vec<Vec<usize>>,
    /// states without a real outgoing transition (they carry the self-loop)
    pub steady: StateSet,
}

impl Ts {
    pub fn num_states(&self) -> usize {
        1 << self.n
    }
    pub fn all(&self) -> StateSet {
        if self.n == 6 {
            u64::MAX
        } else {
            (1u64 << (1 << self.n)) - 1
        }
    }
    pub fn ex(&self, z: StateSet) -> StateSet {
        let mut out = 0;
        for (s, succ) in self.succ.iter().enumerate() {
            if succ.iter().any(|t| (z >> t) & 1 == 1) {
                out |= 1 << s;
            }
        }
        out
    }
    pub fn ax(&self, z: StateSet) -> StateSet {
        let mut out = 0;
        for (s, succ) in self.succ.iter().enumerate() {
            if succ.iter().all(|t| (z >> t) & 1 == 1) {
                out |= 1 << s;
            }
        }
        out
    }
}

/// Reads sets over one symbolic context point-wise.
pub struct PointReader {
    num_vars: u16,
    state_vars: Vec<BddVariable>,
    param_vars: Vec<BddVariable>,
    pub extra_vars: Vec<BddVariable>,
}

impl PointReader {
    /// `param_names` fixes the order of colour bits (names of parameter BDD variables).
    pub fn new(ctx: &SymbolicContext, param_names: &[String]) -> PointReader {
        let set = ctx.bdd_variable_set();
        let param_vars = param_names
            .iter()
            .map(|n| set.var_by_name(n).expect("parameter variable by name"))
            .collect();
        PointReader {
            num_vars: set.num_vars(),
            state_vars: ctx.state_variables().clone(),
            param_vars,
            extra_vars: ctx.all_extra_state_variables().clone(),
        }
    }
    pub fn valuation(&self, state: usize, colour: u64, extra_bits: u64) -> BddValuation {
        let mut v = vec![false; self.num_vars as usize];
        for (i, var) in self.state_vars.iter().enumerate() {
            v[var.to_index()] = (state >> i) & 1 == 1;
        }
        for (j, var) in self.param_vars.iter().enumerate() {
            v[var.to_index()] = (colour >> j) & 1 == 1;
        }
        for (j, var) in self.extra_vars.iter().enumerate() {
            v[var.to_index()] = (extra_bits >> (j % 64)) & 1 == 1;
        }
        BddValuation::new(v)
    }
    pub fn contains(&self, bdd: &Bdd, state: usize, colour: u64, extra_bits: u64) -> bool {
        bdd.eval_in(&self.valuation(state, colour, extra_bits))
    }
}

pub struct Net {
    pub aeon: String,
    pub bn: BooleanNetwork,
    pub graph: SymbolicAsyncGraph,
    pub k: u16,
    pub n: usize,
    pub var_names: Vec<String>,
    pub param_names: Vec<String>,
    /// number of parameter bits; colours are numbered 0 .. 2^p
    pub p: usize,
    pub valid: Vec<bool>,
    pub reader: PointReader,
    funcs: Vec<Fe>,
}

fn compile_table(table: &FunctionTable, param_index: &HashMap<BddVariable, usize>) -> Vec<usize> {
    let mut rows = vec![usize::MAX; 1usize << table.symbolic_variables().len().trailing_zeros()];
    for (args, var) in table {
        let mut key = 0usize;
        for (i, a) in args.iter().enumerate() {
            if *a {
                key |= 1 << i;
            }
        }
        rows[key] = param_index[&var];
    }
    assert!(rows.iter().all(|r| *r != usize::MAX));
    rows
}

fn compile(f: &FnUpdate, ctx: &SymbolicContext, param_index: &HashMap<BddVariable, usize>) -> Fe {
    match f {
        FnUpdate::Const(b) => Fe::Const(*b),
        FnUpdate::Var(v) => Fe::Var(v.to_index()),
        FnUpdate::Not(a) => Fe::Not(Box::new(compile(a, ctx, param_index))),
        FnUpdate::Binary(op, a, b) => Fe::Bin(
            *op,
            Box::new(compile(a, ctx, param_index)),
            Box::new(compile(b, ctx, param_index)),
        ),
        FnUpdate::Param(id, args) => Fe::Table(
            compile_table(ctx.get_explicit_function_table(*id), param_index),
            args.iter().map(|a| compile(a, ctx, param_index)).collect(),
        ),
    }
}

pub const MAX_PARAM_BITS: usize = 12;
pub const MAX_VARS: usize = 6;

impl Net {
    pub fn build(aeon: &str, k: u16) -> Result<Net, BuildErr> {
        let bn = BooleanNetwork::try_from(aeon).map_err(BuildErr::Parse)?;
        Net::from_bn(bn, aeon.to_string(), k)
    }

    pub fn from_bn(bn: BooleanNetwork, aeon: String, k: u16) -> Result<Net, BuildErr> {
        Net::from_bn_with_limit(bn, aeon, k, MAX_VARS)
    }

    /// `max_vars` above `MAX_VARS` is only meaningful for callers that do not use state *sets*
    /// (`ts`, `slice`, `mk_set`), e.g. truth-table computations through `update_value`.
    pub fn from_bn_with_limit(bn: BooleanNetwork, aeon: String, k: u16, max_vars: usize) -> Result<Net, BuildErr> {
        let n = bn.num_vars();
        if n > max_vars {
            return Err(BuildErr::TooLarge(n));
        }
        // count parameter bits before building anything symbolic
        let graph = get_extended_symbolic_graph(&bn, k).map_err(BuildErr::Unsat)?;
        let ctx = graph.symbolic_context();
        let p = ctx.parameter_variables().len();
        if p > MAX_PARAM_BITS {
            return Err(BuildErr::TooLarge(p));
        }
        let set = ctx.bdd_variable_set();
        let param_names: Vec<String> = ctx
            .parameter_variables()
            .iter()
            .map(|v| set.name_of(*v))
            .collect();
        let param_index: HashMap<BddVariable, usize> = ctx
            .parameter_variables()
            .iter()
            .enumerate()
            .map(|(i, v)| (*v, i))
            .collect();
        let mut funcs = vec![];
        for var in bn.variables() {
            let fe = if let Some(f) = bn.get_update_function(var) {
                compile(f, ctx, &param_index)
            } else {
                let table = ctx
                    .get_implicit_function_table(var)
                    .expect("implicit function table");
                let args = bn
                    .regulators(var)
                    .into_iter()
                    .map(|r| Fe::Var(r.to_index()))
                    .collect();
                Fe::Table(compile_table(table, &param_index), args)
            };
            funcs.push(fe);
        }
        let reader = PointReader::new(ctx, &param_names);
        let unit_colors = graph.unit_colors().as_bdd().clone();
        let valid = (0..(1u64 << p))
            .map(|c| reader.contains(&unit_colors, 0, c, 0))
            .collect();
        let var_names = bn
            .variables()
            .map(|v| bn.get_variable_name(v).clone())
            .collect();
        Ok(Net {
            aeon,
            bn,
            graph,
            k,
            n,
            var_names,
            param_names,
            p,
            valid,
            reader,
            funcs,
        })
    }

    pub fn num_colours(&self) -> usize {
        1 << self.p
    }
    pub fn num_states(&self) -> usize {
        1 << self.n
    }
    pub fn all_states(&self) -> StateSet {
        if self.n == 6 {
            u64::MAX
        } else {
            (1u64 << (1 << self.n)) - 1
        }
    }
    pub fn valid_colours(&self) -> Vec<u64> {
        (0..self.num_colours() as u64)
            .filter(|c| self.valid[*c as usize])
            .collect()
    }
    pub fn num_valid(&self) -> usize {
        self.valid.iter().filter(|b| **b).count()
    }
    pub fn unit_is_strict(&self) -> bool {
        self.num_valid() < self.num_colours()
    }

    /// Transition system of one colour (valid or not): asynchronous updates, a state without
    /// outgoing transition gets a self-loop.
    pub fn ts(&self, colour: u64) -> Ts {
        let mut succ = Vec::with_capacity(self.num_states());
        let mut steady = 0u64;
        for s in 0..self.num_states() {
            let mut out = vec![];
            for (i, f) in self.funcs.iter().enumerate() {
                let v = f.eval(s, colour);
                if v != ((s >> i) & 1 == 1) {
                    out.push(s ^ (1 << i));
                }
            }
            if out.is_empty() {
                out.push(s);
                steady |= 1 << s;
            }
            succ.push(out);
        }
        Ts {
            n: self.n,
            succ,
            steady,
        }
    }

    /// Does the update function of `var` read any parameter bit?
    pub fn update_uses_params(&self, var: usize) -> bool {
        fn uses(f: &Fe) -> bool {
            match f {
                Fe::Const(_) | Fe::Var(_) => false,
                Fe::Not(a) => uses(a),
                Fe::Bin(_, a, b) => uses(a) || uses(b),
                Fe::Table(..) => true,
            }
        }
        uses(&self.funcs[var])
    }

    /// Value of update function `var` in `state` under `colour` (for C19 / C20 style checks).
    pub fn update_value(&self, var: usize, state: usize, colour: u64) -> bool {
        self.funcs[var].eval(state, colour)
    }

    /// Read a coloured set that lives in the graph's own (extended) context.
    pub fn slice(&self, set: &GraphColoredVertices, colour: u64, extra_bits: u64) -> StateSet {
        let mut out = 0;
        for s in 0..self.num_states() {
            if self.reader.contains(set.as_bdd(), s, colour, extra_bits) {
                out |= 1 << s;
            }
        }
        out
    }

    /// Read a coloured set living in another context over the same network (e.g. canonical).
    pub fn slice_in(
        &self,
        reader: &PointReader,
        set: &GraphColoredVertices,
        colour: u64,
        extra_bits: u64,
    ) -> StateSet {
        let mut out = 0;
        for s in 0..self.num_states() {
            if reader.contains(set.as_bdd(), s, colour, extra_bits) {
                out |= 1 << s;
            }
        }
        out
    }

    /// Build a coloured set (over state + parameter variables only, inside the unit set unless
    /// `clip` is false) from an explicit description: per colour a set of states.
    pub fn mk_set(&self, per_colour: &dyn Fn(u64) -> StateSet, clip: bool) -> GraphColoredVertices {
        let ctx = self.graph.symbolic_context();
        let set = ctx.bdd_variable_set();
        let mut bdd = set.mk_false();
        // group colours with identical state sets to keep the number of BDD operations small
        let mut groups: HashMap<StateSet, Vec<u64>> = HashMap::new();
        for c in 0..self.num_colours() as u64 {
            let s = per_colour(c);
            if s != 0 {
                groups.entry(s).or_default().push(c);
            }
        }
        let mut keys: Vec<_> = groups.keys().copied().collect();
        keys.sort();
        let pvars: Vec<BddVariable> = self
            .param_names
            .iter()
            .map(|n| set.var_by_name(n).unwrap())
            .collect();
        for key in keys {
            let mut states = set.mk_false();
            for s in 0..self.num_states() {
                if (key >> s) & 1 == 1 {
                    let mut cube = set.mk_true();
                    for (i, var) in ctx.state_variables().iter().enumerate() {
                        cube = cube.and(&set.mk_literal(*var, (s >> i) & 1 == 1));
                    }
                    states = states.or(&cube);
                }
            }
            let mut colours = set.mk_false();
            for c in &groups[&key] {
                let mut cube = set.mk_true();
                for (j, var) in pvars.iter().enumerate() {
                    cube = cube.and(&set.mk_literal(*var, (c >> j) & 1 == 1));
                }
                colours = colours.or(&cube);
            }
            bdd = bdd.or(&states.and(&colours));
        }
        let out = GraphColoredVertices::new(bdd, ctx);
        if clip {
            use biodivine_lib_param_bn::biodivine_std::traits::Set;
            out.intersect(self.graph.unit_colored_vertices())
        } else {
            out
        }
    }

    pub fn state_to_string(&self, s: usize) -> String {
        (0..self.n)
            .map(|i| {
                format!(
                    "{}={}",
                    self.var_names[i],
                    if (s >> i) & 1 == 1 { 1 } else { 0 }
                )
            })
            .collect::<Vec<_>>()
            .join(",")
    }
    pub fn colour_to_string(&self, c: u64) -> String {
        (0..self.p)
            .map(|j| {
                format!(
                    "{}={}",
                    self.param_names[j],
                    if (c >> j) & 1 == 1 { 1 } else { 0 }
                )
            })
            .collect::<Vec<_>>()
            .join(",")
    }
}
